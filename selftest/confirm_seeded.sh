#!/bin/sh
# usage: selftest/confirm_seeded.sh <worktree> <N> <dest-id>
# Confirms a sub-agent's change in its scratch worktree (suite still 38 passed with the change, demo fails with it and
# passes without it), then stores patch.diff / demo.py / notes.md under /verif/seeded/<dest-id>/ with a confirm.log.
WT=$1; N=$2; ID=$3
VERIF="$(cd "$(dirname "$0")/.." && pwd)"
DEST=$VERIF/seeded/$ID
mkdir -p $DEST
LOG=$DEST/confirm.log
: > $LOG
cd $WT || exit 2
git checkout -q -- pygamma_agreement
git apply --check SEEDED/change$N.diff || { echo "patch does not apply" | tee -a $LOG; exit 2; }
PYTHONPATH=$WT timeout 1200 /venv/bin/python SEEDED/demo$N.py > /tmp/demo-$ID-clean.out 2>&1; c0=$?
git apply SEEDED/change$N.diff
PYTHONPATH=$WT timeout 1200 /venv/bin/python SEEDED/demo$N.py > /tmp/demo-$ID-changed.out 2>&1; c1=$?
suite=$(PYTHONPATH=$WT /venv/bin/python -m pytest -q -p no:cacheprovider --timeout=900 -n 6 --deselect tests/test_cli.py tests 2>&1 | grep -E "passed|failed|error" | tail -1)
git checkout -q -- pygamma_agreement
echo "demo exit without change: $c0 (want 0)" >> $LOG
echo "demo exit with change:    $c1 (want 1)" >> $LOG
echo "suite with change:        $suite (want 38 passed)" >> $LOG
echo "--- demo output with change (tail)" >> $LOG; tail -8 /tmp/demo-$ID-changed.out >> $LOG
cp SEEDED/change$N.diff $DEST/patch.diff; cp SEEDED/demo$N.py $DEST/demo.py; cp SEEDED/notes$N.md $DEST/notes.md 2>/dev/null
cat $LOG | head -3
