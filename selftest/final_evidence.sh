#!/bin/sh
# Regenerates the committed evidence: every quick check once, one after the other, against /repo (nothing else should be running).
cd "$(dirname "$0")/.." || exit 2
for p in C01 C02 C03 C04 C05 C06 C07 C08 C09 C10 C11 C12 C13 C14 C15 C16 C17 C18 C19 C20; do
  VERIF_SEED=${1:-0} ./vcheck $p --tier quick > /tmp/final-$p.out 2>&1
  echo "$p exit=$? $(grep -E '^\[' /tmp/final-$p.out | tail -1 | cut -c1-140)"
  grep -E '^VIOLATION|^INCONCLUSIVE' /tmp/final-$p.out | cut -c1-200
done
