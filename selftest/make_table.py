#!/venv/bin/python
"""Fills the SEEDED_TABLE block of DESIGN.md from seeded/*/meta.json, selftest/first_verdicts.json and selftest/results-quick.json."""
import json, os, re
V = os.path.dirname(os.path.dirname(os.path.abspath(__file__)))
res = {r["id"]: r for r in json.load(open(os.path.join(V, "selftest", "results-quick.json")))}
first = json.load(open(os.path.join(V, "selftest", "first_verdicts.json")))
rows = ["| id | property | change (what it needs to manifest) | first verdict | now (quick tier): checks that fire |", "|----|----|----|----|----|"]
for d in sorted(os.listdir(os.path.join(V, "seeded"))):
    mp = os.path.join(V, "seeded", d, "meta.json")
    if not os.path.exists(mp):
        continue
    m = json.load(open(mp))
    r = res.get("seeded-" + d)
    now = "not run yet"
    if r:
        fired = re.findall(r"(C\d\d): exit=1", r["info"])
        now = (r["verdict"] + ": " + ", ".join(fired)) if fired else r["verdict"]
    rows.append(f"| {d} | {m['property']} | {m['change']} ({m['needs']}) | {first.get(d, 'n/a')} | {now} |")
table = "\n".join(rows)
p = os.path.join(V, "DESIGN.md")
s = open(p).read()
if "SEEDED_TABLE" in s:
    s = s.replace("SEEDED_TABLE", "<!-- seeded-table-begin -->\n" + table + "\n<!-- seeded-table-end -->")
else:
    s = re.sub(r"<!-- seeded-table-begin -->.*?<!-- seeded-table-end -->", "<!-- seeded-table-begin -->\n" + table.replace("\\", "\\\\") + "\n<!-- seeded-table-end -->", s, flags=re.S)
open(p, "w").write(s)
print(len(rows) - 2, "rows")
