#!/venv/bin/python
"""Mines continua whose alignment programme has an *integrality gap*: the LP relaxation of the exact-cover (or cover)
programme over the unpruned candidate table is strictly below the integer optimum, so that a MIP solver has to branch.
On such instances an early stop (relative gap, node limit, rounding heuristic accepted as final) or a secondary
criterion shows as a dearer alignment, while on ordinary instances (integral LP optimum) it never does.

The result is a corpus (vframework/corpus/hard_mip.json) of case specs, judged at run time like any other case: the
corpus only says *which inputs to run*, never what the answer is.  Computed with scipy/HiGHS only (LP and MILP) on
pair costs read from the library's compiled dissimilarity - nothing here depends on the library's optimiser.

usage: selftest/mine_hard_mip.py <n_wanted> <seed> [<out.json>]"""
import json
import os
import random
import sys
import time

VERIF = os.path.dirname(os.path.dirname(os.path.abspath(__file__)))
sys.path.insert(0, VERIF)
repo = os.environ.get("VERIF_REPO", "/repo")
sys.path.insert(0, repo)

import numpy as np
from scipy.optimize import linprog, milp, LinearConstraint, Bounds
from scipy.sparse import csr_matrix

from vframework import cases, oracles


def matrix(masks, nunits):
    rows, cols = [], []
    for k, m in enumerate(masks):
        m = int(m)
        u = 0
        while m:
            if m & 1:
                rows.append(u)
                cols.append(k)
            m >>= 1
            u += 1
    return csr_matrix((np.ones(len(rows)), (rows, cols)), shape=(nunits, len(masks)))


def gaps(cspec, dissim):
    arrays = oracles.unit_arrays(cspec, dissim)
    sizes = [len(a) for a in arrays]
    nunits = int(sum(sizes))
    mats = oracles.pair_matrices(arrays, dissim.d_mat, dissim.delta_empty)
    tensor = oracles.tuple_cost_tensor(mats, sizes)
    tuples, costs = oracles.all_candidates(tensor, sizes)
    # the library's cut (n * delta_empty) never changes the optimum; using it keeps the programmes small
    keep = costs <= len(sizes) * float(dissim.delta_empty) * (1 + 1e-6)
    tuples, costs = tuples[keep], costs[keep]
    masks = oracles.candidate_masks(tuples, sizes)
    A = matrix(masks, nunits)
    out = {}
    for cover in (False, True):
        if cover:
            lp = linprog(costs, A_ub=-A, b_ub=-np.ones(nunits), bounds=(0, 1), method="highs")
        else:
            lp = linprog(costs, A_eq=A, b_eq=np.ones(nunits), bounds=(0, 1), method="highs")
        if not lp.success:
            return None
        con = LinearConstraint(A, lb=np.ones(nunits), ub=(np.full(nunits, np.inf) if cover else np.ones(nunits)))
        ip = milp(c=costs, constraints=[con], integrality=np.ones(len(costs)), bounds=Bounds(0, 1),
                  options={"time_limit": 60, "mip_rel_gap": 0.0})
        if not ip.success:
            return None
        frac = int(np.sum((lp.x > 1e-6) & (lp.x < 1 - 1e-6)))
        out["cover" if cover else "partition"] = {"lp": float(lp.fun), "ip": float(ip.fun), "fractional_vars": frac,
                                                   "rel_gap": float((ip.fun - lp.fun) / max(ip.fun, 1e-12))}
    out["n_candidates"] = int(len(costs))
    return out


def main():
    want = int(sys.argv[1])
    seed = int(sys.argv[2])
    out = sys.argv[3] if len(sys.argv) > 3 else os.path.join(VERIF, "vframework", "corpus", f"hard_mip-{seed}.json")
    rng = random.Random(seed)
    pool = cases.DissimPool()
    dspecs = [{"kind": "positional", "delta": 1.0}, {"kind": "positional", "delta": 0.5},
              {"kind": "combined", "alpha": 1.0, "beta": 1.0, "delta": 1.0, "pos": None, "cat": None},
              {"kind": "combined", "alpha": 3.0, "beta": 1.0, "delta": 2.0, "pos": None, "cat": None},
              {"kind": "positional", "delta": 3.7}]
    found = []
    tried = 0
    t0 = time.time()
    while len(found) < want and time.time() - t0 < float(os.environ.get("MINE_SECONDS", "3000")):
        tried += 1
        n = rng.choice([3, 3, 3, 4, 4, 5])
        k = {3: rng.randint(5, 13), 4: rng.randint(4, 8), 5: rng.randint(3, 5)}[n]
        fam = rng.choice(["dense", "dense", "dense", "longoverlap", "mixeddur", "nested"])
        cspec = cases.gen_continuum(rng, n_annot=n, sizes=[rng.randint(max(2, k - 2), k) for _ in range(n)], family=fam,
                                    labels=cases.LABELS_SMALL, names=cases.ANNOTATOR_NAMES[:n])
        cspec.pop("time_type", None)
        dspec = rng.choice(dspecs)
        g = gaps(cspec, pool.get(dspec))
        if g is None:
            continue
        best = max(g["partition"]["rel_gap"], g["cover"]["rel_gap"])
        if best > 2e-3:
            found.append({"continuum": cspec, "dissim": dspec, "gap": g})
            print(f"[{len(found)}/{want}] tried={tried} n={n} fam={fam} cand={g['n_candidates']} "
                  f"part={g['partition']['rel_gap']:.4f} cover={g['cover']['rel_gap']:.4f}", flush=True)
    os.makedirs(os.path.dirname(out), exist_ok=True)
    json.dump({"tried": tried, "seed": seed, "cases": found}, open(out, "w"))
    print("tried", tried, "kept", len(found), "in", round(time.time() - t0), "s")


if __name__ == "__main__":
    main()
