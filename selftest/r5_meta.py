#!/venv/bin/python
"""Writes seeded/<id>/meta.json for the fifth-round changes from their confirm.log (run after confirm_seeded.sh / reconfirm.sh)."""
import json, os, re
V = os.path.dirname(os.path.dirname(os.path.abspath(__file__)))
D = {
 "C01-r5-1": ("C01", ["C01", "C11"], "get_best_alignment / get_best_soft_alignment refactored into two helpers that hand the candidate table over through attributes of the continuum (self._candidates, self._disorders)",
              "two user threads aligning the SAME continuum object at once with dissimilarities that give different candidate tables"),
 "C01-r5-2": ("C01", ["C01", "C02"], "for exactly two annotators the assignment problem is solved as a linear relaxation with cvxpy's default interior-point solver: on an exact tie it returns the centre of the optimal face (0.5 / 0.5), nothing passes x > 0.9 and the tied units vanish",
              "exactly two annotators and two optimal alignments of exactly equal disorder (integer grids: about 10 %; purely categorical dissimilarity: about 65 %)"),
 "C02-r5-1": ("C02", ["C02", "C07"], "the full 10 000-row candidate buffer is compacted before it grows: candidates of k real units costlier than k*delta_empty are dropped, but the stored values are sums over the pairs, not means",
              ">= 10 000 candidates in one call, >= 3 annotators and an optimum that holds a wrongly dropped partial tuple (off by 0.05-0.12 %)"),
 "C02-r5-2": ("C02", ["C02", "C01", "C03"], "label -> index dict kept on the dissimilarity (labels numbered as met, kept between calls) while unlabelled units still get len(current categories): collides with a label indexed on an earlier continuum",
              "one label-free dissimilarity object used first on a continuum with more labels, then on one with fewer labels that mixes labelled and unlabelled units"),
 "C03-r5-1": ("C03", ["C03"], "_build_arrays_alignment keeps its (n_unitary, n_annotators, 4) array on the dissimilarity object and reuses it for the next alignment of the same shape",
              "two or more threads calling compute_disorder with the same dissimilarity object on same-shaped alignments at overlapping times"),
 "C04-r5-1": ("C04", ["C04", "C06"], "_category_index memoises SortedSet.index in a dict kept on the dissimilarity object, reset at the start of each array build",
              "one label-free dissimilarity used by two threads at once on continua / alignments with different category sets, a thread switch inside one build loop"),
 "C05-r5-1": ("C05", ["C05", "C01", "C08"], "duplicated ILP code moved to one helper; the switch from 'cover' to 'exact cover' sits inside the try, after `import cylp`: when that import fails GLPK solves the soft programme for the best alignment",
              "`import cylp` failing (not a CBC SolverError), exact or fast mode, a unit close to two units of another annotator"),
 "C05-r5-2": ("C05", ["C05"], "compute_gamma caches the observed alignment on the continuum (keyed by job and dissimilarity identity); add / remove clear it, add_annotator does not",
              "two compute_gamma calls on the same continuum object with the same dissimilarity object and mode, add_annotator (or an in-place merge of a unit-less annotator) in between"),
 "C06-r5-1": ("C06", ["C06", "C05"], "init_sampling called again for the same continuum object without ground-truth annotators keeps the ones given explicitly before",
              "one sampler object passed to several compute_gamma calls on the same continuum: a call with explicit ground-truth annotators, then a call without"),
 "C06-r5-2": ("C06", ["C06", "C08"], "the CBC -> GLPK fall-back is decided once per process (module-level flag): one transient SolverError switches every later alignment to GLPK",
              "a single CBC failure, then a computation whose optimum is tied, CBC and GLPK settling the tie differently (gamma-cat / gamma-k change)"),
 "C07-r5-1": ("C07", ["C07"], "per-tuple re-summation of pair values replaced by a running float64 sum (subtract the leaving unit's terms, add the entering unit's), never recomputed",
              ">= 3 annotators and two units whose distance is about 1e5 times their durations (a huge pair value leaves its rounding error in the running sum)"),
 "C08-r5-1": ("C08", ["C08", "C11"], "solver helper remembers the GLPK fall-back after CBC first proved unusable; the remembered programme builder captures the `exact` flag of the first failing call",
              "a GLPK configuration, both kinds of alignment computed in the same process, a continuum whose optimal cover is cheaper than its optimal partition"),
 "C09-r5-2": ("C09", ["C09", "C13"], "Continuum keeps a running _num_units counter; add increments it even when the set already holds the unit",
              "the same (annotator, segment, label) added twice on one side of the comparison only (every disorder of that object is scaled by n/(n+k))"),
 "C10-r5-1": ("C10", ["C10", "C03"], "'nothing to solve' shortcut in get_fast_alignment: when only one annotator still has units each remaining unit becomes a lone unitary alignment with disorder (p-1)*delta_empty/C(p,2) instead of delta_empty",
              ">= 3 annotators and a point of the sweep where a single annotator outlasts the others (35-40 % of random 3-4 annotator continua, window 1-2)"),
 "C10-r5-2": ("C10", ["C10"], "Continuum remembers its last fast alignment (dissimilarity, window size, alignment); add / remove clear it, add_annotator does not",
              "get_fast_alignment(d, w), add_annotator(new), get_fast_alignment(d, w) again on the same object"),
 "C11-r5-1": ("C11", ["C11", "C01"], "_build_arrays_continuum keeps the unit arrays on the continuum (reset by add / remove / add_annotator) and rewrites the label-index column in place on every call",
              "two threads aligning the same continuum object at once with dissimilarities that index labels differently"),
 "C11-r5-2": ("C11", ["C11"], "get_best_soft_alignment also catches a SolverError from GLPK and, instead of the assertion, logs a warning and returns the all-singletons cover",
              "both solvers failing (CBC unavailable / failing and GLPK raising SolverError, or no solution returned)"),
 "C12-r5-1": ("C12", ["C12"], "UnitaryAlignment.real_pairs caches (unit1, unit2, positional confidence) triples; the cache key is published before the list is filled",
              "two user threads measuring gamma-k / gamma-cat on the same alignment object, the second entering during the first fill"),
 "C12-r5-2": ("C12", ["C12"], "gamma_k_disorder reads the labels once per unitary alignment and tests `label is None` instead of `unit is None`: an unlabelled real unit is treated as the empty unit",
              "at least one unit with annotation None in the measured alignment (legal with the default absolute categorical component)"),
 "C13-r5-1": ("C13", ["C13"], "Unit.__lt__ rewritten as one comparison of (start, end, annotation or '')",
              "one annotator holding an unlabelled unit and a ''-labelled unit on the same segment (order no longer strict: remove tears the SortedSet)"),
 "C13-r5-2": ("C13", ["C13"], "num_units becomes a cached count: add invalidates it, copy carries it over, remove decrements it BEFORE annotations.remove(unit)",
              "a valid cache (no add since the last read), a remove refused with KeyError on a known annotator, the count read before the next add"),
 "C14-r5-1": ("C14", ["C14", "C19"], "copy() shares the annotators' SortedSets with the source (copy-on-write guard in add / remove); CorpusShufflingTool.splits_shuffle pops from continuum._annotations directly and skips the guard",
              "the public splits_shuffle called on a continuum obtained by copy(), or on the source of a copy"),
 "C14-r5-2": ("C14", ["C14", "C13"], "annotators cached in _annotators (updated in place by add_annotator); copy() becomes copy.copy(self) + duplicating _annotations and _categories, so the cached set is shared",
              "read source.annotators, copy() (or out-of-place merge / +), a new annotator on one side, inspect the other"),
 "C15-r5-1": ("C15", ["C15"], "init_sampling_custom no longer resets the category weights: those of an earlier initialisation survive a custom initialisation without weights",
              "the same sampler initialised twice, ending with init_sampling_custom(categories_weight=None) after an initialisation that produced weights"),
 "C15-r5-2": ("C15", ["C15"], "sample_from_continuum split into hooks; the local `last_point` cursor becomes an attribute of the sampler",
              "one sampler object shared by two or more threads drawing at the same time"),
 "C16-r5-1": ("C16", ["C16", "C13"], "avg_length_unit becomes O(1) through a running _total_duration updated by add / remove; copy() deep-copies _annotations and starts the sum at 0",
              "a reference obtained by copy(), out-of-place merge or a + b (the distance kept between pivots shrinks)"),
 "C16-r5-2": ("C16", ["C16", "C15"], "init_sampling keeps the caller's ground_truth_annotators object when it already is a SortedSet",
              "ground truth given as a SortedSet that the caller edits after init_sampling, then draws again without re-initialising"),
 "C17-r5-1": ("C17", ["C17"], "Alignment.check reads a cached frozenset of the continuum's (annotator, unit) pairs, revalidated only by a per-annotator unit-count fingerprint",
              "a check against a continuum object, a same-size edit of it (relabel via remove + add), another check against the same object"),
 "C17-r5-2": ("C17", ["C17"], "Unit gets an explicit __hash__ that stores its value on the frozen instance; pickle ships the cached hash",
              "string-labelled units pickled in one process and unpickled in another with a different hash seed, checked against units created there"),
 "C18-r5-1": ("C18", ["C18"], "add_textgrid takes the parsed TextGrid from an lru_cache keyed on (path, mtime, size) and, in tier-name mode, writes the tier name into interval.mark before adding",
              "the same unchanged file imported twice in one process: first with use_tier_as_annotation=True, then with marks as labels"),
 "C18-r5-2": ("C18", ["C18"], "from_csv pre-checks rows with a numeric regex that does not accept exponent notation",
              "a time that to_csv writes in exponent form (0 < |t| < 1e-4 or |t| >= 1e16)"),
 "C19-r5-1": ("C19", ["C19"], "splits_shuffle adds the two pieces inside try/except; when the second piece is refused after the first went in, the whole unit is put back next to its own first part",
              "a cut within the segment precision (1e-6) of the unit's end: microsecond-scale units"),
 "C19-r5-2": ("C19", ["C19"], "corpus_shuffle gains an early check that the reference's name is not among the requested annotators, made on the argument itself: a one-shot iterator is exhausted",
              "annotators given as a generator / iter / map together with include_ref=True"),
 "C20-r5-1": ("C20", ["C20"], "the command line passes fast = (average units per annotator >= 30) instead of fast=True",
              "a file with >= 4 annotators and about 12-29 units per annotator (the library picks a finite window there)"),
 "C20-r5-2": ("C20", ["C20"], "inputs are loaded in a first pass that logs and skips a file that fails; the second pass zips the file names with the loaded continua, so names shift",
              "several input files, one that is not the last failing to load"),
}
SUPERSEDED = {
 "C04-r5-2": "a refused combined-constructor call left the given component half re-parameterised - the fix 80e5b16 (D23) makes the constructor work on a copy, the caller's component is never touched",
 "C07-r5-2": "combined constructor skipped recompiling a zero-weighted component that it had re-parameterised in place - same: after 80e5b16 the caller's component object is never modified",
 "C03-r5-2": "GLPK fall-back rescaled the candidate disorders in place and the carried disorders were read from the scaled table - after cdb47f8 (D27) the programme is written on a separate, already relative cost array and the carried disorders come from the untouched one: the same edit no longer changes any result (demo exits 0 with the change on the repaired tree)",
 "C08-r5-2": "CBC handed disorders / delta_empty in place through a context manager without try/finally - same: after cdb47f8 the array it scales is the solver's own cost array, not the one the disorders are read from (demo exits 0 with the change on the repaired tree)",
 "C09-r5-1": "lazy kernel compilation + in-place re-parameterisation of a shared component - same: after 80e5b16 nothing is shared",
}
for i, (prop, cw, change, needs) in D.items():
    d = os.path.join(V, "seeded", i)
    if not os.path.exists(os.path.join(d, "patch.diff")):
        print("missing", i)
        continue
    log = open(os.path.join(d, "confirm.log")).read()
    lines = [l for l in log.splitlines() if re.match(r"(demo exit|suite with|--- re-confirmed)", l)]
    old = {}
    if os.path.exists(os.path.join(d, "meta.json")):
        old = json.load(open(os.path.join(d, "meta.json")))
    m = {"id": i, "property": prop, "check_with": cw, "change": change, "needs": needs,
         "written_by": "independent sub-agent (fifth round: given the property text, a scratch worktree, one-line descriptions of the earlier changes for "
                       "its property, and asked for two changes of two different flavours among: interleaving, fault at a particular point, multi-step "
                       "sequence, unusual input, two cooperating sites)",
         "confirmed_by_me": lines, "confirm_command": f"selftest/confirm_seeded.sh /tmp/wt7-{prop} {i[-1]} {i}  (+ selftest/reconfirm.sh {i} after the fix commits moved /repo's HEAD)"}
    if "rebased" in old:
        m["rebased"] = old["rebased"]
    json.dump(m, open(os.path.join(d, "meta.json"), "w"), indent=1)
json.dump(SUPERSEDED, open(os.path.join(V, "seeded", "SUPERSEDED.json"), "w"), indent=1)
print("done")
