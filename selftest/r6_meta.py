#!/venv/bin/python
"""Writes seeded/<id>/meta.json for the sixth-round changes from their confirm.log."""
import json, os, re
V = os.path.dirname(os.path.dirname(os.path.abspath(__file__)))
D = {
 "C01-r6-1": ("C01", ["C01", "C07", "C02"], "valid_alignments drops candidates of k real units costlier than k*delta_empty, comparing the float32 (sum / C(n,2)) value with the exact product: for some delta_empty every singleton is an ulp above it and is dropped",
              ">= 3 annotators, a delta_empty with the upward rounding pattern (0.85, 1.45, 1.7, 1.95, 2.9 ...: 6-7 % of random values) and a unit that has to be left alone (the programme becomes infeasible: AssertionError / ValueError)"),
 "C02-r6-1": ("C02", ["C02", "C13"], "num_units becomes a running counter decremented in remove() BEFORE the SortedSet.remove that can raise",
              "a refused remove (KeyError, caught by the caller), then a best alignment / gamma on that continuum or a copy of it (disorder = minimum * N/(N-1))"),
 "C03-r6-1": ("C03", ["C03", "C08"], "GLPK fall-back drops dominated candidates (sound) but the carried disorders are still read from the unfiltered table with ids of the filtered one",
              "the GLPK fall-back (cylp not importable or CBC failing), >= 3 annotators, a pruned candidate enumerated before a chosen one"),
 "C04-r6-1": ("C04", ["C04"], "OrdinalCategoricalDissimilarity gains a keyword m before delta_empty; NumericalCategoricalDissimilarity still calls super().__init__(labels, labels_num, delta_empty) positionally: its delta_empty lands in m",
              "a numerical dissimilarity built with delta_empty != 1 and used on its own (inside a combined one only when delta_empty exceeds the label range)"),
 "C05-r6-1": ("C05", ["C05"], "compute_gamma collects its futures through a helper that skips a chance sample whose job raised AssertionError / SolverError; the top-up loop sits inside `if precision_level is not None`",
              "one chance sample's alignment failing (solver gives no solution) while the observed one succeeds, and no precision level: fewer than n_samples chance alignments are held"),
 "C06-r6-1": ("C06", ["C06", "C05"], "get_best_alignment memoised per continuum, keyed by the dissimilarity; dissimilarities get value equality (class, delta_empty, categories, alpha, beta, components) that ignores a precomputed matrix / ordinal positions",
              "two computations on the same continuum object, units unchanged, with two dissimilarities of the same class and parameters that measure differently (other ordinal positions, another matrix)"),
 "C07-r6-1": ("C07", ["C07", "C04"], "the candidate cut is memoised on the dissimilarity object (self._criterium) by valid_alignments and read back after the unit arrays were built",
              "one dissimilarity object used by two threads at once on continua with different numbers of annotators (inside the library: compute_gamma with a ground-truth subset)"),
 "C08-r6-1": ("C08", ["C08", "C01"], "alignments computed through the GLPK fall-back are memoised on the continuum (dissimilarity, kind); add / remove empty the memo, add_annotator does not",
              "a GLPK configuration, one continuum object aligned, add_annotator, the same kind of alignment asked again with the same dissimilarity object"),
 "C09-r6-1": ("C09", ["C09", "C04"], "PrecomputedCategoricalDissimilarity multiplies its matrix by delta_empty once in __init__; kernel and d() become plain look-ups, so the combined constructor's re-parameterisation of a copy has no effect on it",
              "a precomputed-type component (ordinal, numerical, Levenshtein ...) handed to a combined dissimilarity with another delta_empty, beta != 0"),
 "C10-r6-1": ("C10", ["C10", "C05"], "init_sampling stores reference_continuum.copy(): the chance samples carry the window size the continuum had BEFORE this compute_gamma measured it",
              "compute_gamma(fast=True) on a continuum that already carries a finite window size while the current call finds windowing disadvantageous (units removed since): the samples are aligned with the stale window"),
 "C11-r6-1": ("C11", ["C11", "C08"], "the cover programme keeps only columns of >= 3 real units boolean, the others continuous in [0, 1] ('LP relaxation of an edge cover is integral'): odd cycles give half-integral optima that x > 0.9 drops",
              ">= 3 annotators and three units of three annotators that are pairwise mediocre matches (0 hits in 700 random continua with alpha = 1, 2 in 240 with alpha = 3)"),
 "C12-r6-1": ("C12", ["C12"], "gamma_k_disorder gives every pair of a unitary alignment whose stored disorder is 0 full weight and categorical dissimilarity 0 without evaluating anything",
              "a unitary alignment whose stored disorder is 0 although its units differ in category: beta = 0, or an alignment computed with one dissimilarity and measured with another"),
 "C13-r6-1": ("C13", ["C13", "C14"], "add / add_annotator keep a memo of the last-written annotator's unit set; copy() starts from copy.copy(self) and so carries the memo pointing at the source's set",
              "last write on c for annotator X, d = c.copy() (or out-of-place merge / +), first write on d again for X: it lands in c"),
 "C14-r6-1": ("C14", ["C14", "C06"], "ShuffleContinuumSampler measures its pivot spacing inside `with continuum.only_annotators(ground_truth)`, which swaps the continuum's annotator dictionary and restores it afterwards",
              "a shuffle sampler with a strict ground-truth subset and another thread reading the continuum during a draw (the library's own worker aligning the input while the caller draws samples)"),
 "C15-r6-1": ("C15", ["C15"], "init_sampling skips re-measuring a reference whose statistics it already holds (same object); the base class stores the reference before validating the ground truth",
              "a sampler holding statistics of A, an init_sampling(B, <unknown annotator>) refused with AssertionError, then init_sampling(B, valid): B's annotators with A's laws (also: the same continuum object mutated between two initialisations)"),
 "C16-r6-1": ("C16", ["C16"], "_random_from_segments returns None when no segment is available and the caller does `pivot = self._random_from_segments(...) or np.random.uniform(...)`: a legitimately drawn pivot 0 is falsy",
              "integer-pivot mode, bounds containing 0, a draw truncated to 0 (about n/L of the samples): that annotator is shifted by a non-integer pivot that ignores the forbidden zones"),
 "C17-r6-1": ("C17", ["C17"], "both checks share a context manager that binds the alignment to the continuum being checked and restores the former binding after the yield - without try/finally",
              "on one alignment object: check(D) failing with SetPartitionError, then an argument-less check() (evaluated against D instead of the continuum it was bound to)"),
 "C18-r6-1": ("C18", ["C18"], "from_csv / to_csv register a csv dialect under one fixed name with the call's delimiter and pass the name to csv.reader / csv.writer",
              "two CSV operations with different delimiters in two threads, the second registration falling between the first one's registration and its reader / writer construction"),
 "C19-r6-1": ("C19", ["C19"], "the five perturbations loop over the corpus's annotators minus the one that bears the reference annotator's name",
              "a requested annotator named like the reference annotator with include_ref=False (explicit list, or an integer count while the reference is called annotator_k): it escapes every perturbation"),
 "C20-r6-1": ("C20", ["C20"], "the command line loads its input files in a 4-worker pool and processes them in as_completed order",
              "two or more input files with --seed and a later file finishing to load before an earlier one: the files swap their parts of the random stream"),
}
for i, (prop, cw, change, needs) in D.items():
    d = os.path.join(V, "seeded", i)
    if not os.path.exists(os.path.join(d, "patch.diff")):
        print("missing", i)
        continue
    log = open(os.path.join(d, "confirm.log")).read()
    lines = [l for l in log.splitlines() if re.match(r"(demo exit|suite with|--- re-confirmed)", l)]
    old = json.load(open(os.path.join(d, "meta.json"))) if os.path.exists(os.path.join(d, "meta.json")) else {}
    m = {"id": i, "property": prop, "check_with": cw, "change": change, "needs": needs,
         "written_by": "independent sub-agent (sixth round: given the property text, a scratch worktree at the repaired tree, one-line descriptions of the earlier "
                       "changes for its property, and asked for one change of the flavour those had used least among: interleaving, fault at a particular point, "
                       "multi-step sequence, unusual input, two cooperating sites)",
         "confirmed_by_me": lines, "confirm_command": f"selftest/confirm_seeded.sh /tmp/wt8-{prop} 1 {i}"}
    if "rebased" in old:
        m["rebased"] = old["rebased"]
    json.dump(m, open(os.path.join(d, "meta.json"), "w"), indent=1)
print("done")
