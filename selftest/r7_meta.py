#!/venv/bin/python
"""Writes seeded/<id>/meta.json for the seventh-round changes from their confirm.log."""
import json, os, re
V = os.path.dirname(os.path.dirname(os.path.abspath(__file__)))
D = {
 "C04-r7-1": ("C04", ["C04"], "PrecomputedCategoricalDissimilarity gains order= (order[k] = alphabetical rank of row k, implemented as documented); the ordinal constructor builds its matrix in the given label order and passes order=np.argsort(labels), the inverse convention",
              "an ordinal / numerical dissimilarity built from labels whose sorting permutation is not its own inverse (a cycle of length >= 3: ['low','medium','high'], '1'..'12' in numerical order)"),
 "C06-r7-1": ("C06", ["C06", "C01"], "for a label-free dissimilarity an unlabelled unit skips the category lookup: its category slot of the np.empty unit array is never written",
              "units without label and the default combined / absolute dissimilarity (shuffle sampler in compute_gamma): each unlabelled unit's category is leftover memory, results depend on process history and job order"),
 "C08-r7-1": ("C08", ["C08", "C01", "C11"], "the CBC / GLPK block becomes one module-level helper object that stores the programme kind (exact cover or cover) on itself; the GLPK constraints are built from that attribute after CBC proved unusable",
              "a GLPK configuration and two threads in one process, one computing a best and the other a soft alignment, the second entering while the first is inside its failing CBC attempt"),
 "C14-r7-1": ("C14", ["C14", "C19"], "corpus_shuffle(include_ref=True) assigns the reference continuum's own unit set for the reference annotator into the corpus instead of copying the units",
              "a corpus generated with include_ref=True, then a mutation of the reference annotator's row on either side (a hand-applied shuffle, add / remove)"),
 "C17-r7-1": ("C17", ["C17"], "Alignment.check sorts self.unitary_alignments in place (by bounds) before walking them: CPython empties a list for the duration of list.sort()",
              "the same alignment object checked by two threads at overlapping times, a thread switch inside the sort (frequent with a few thousand unitary alignments)"),
 "C18-r7-1": ("C18", ["C18"], "add_elan wraps a tier's whole loop in try / except ValueError ('zero-length annotation ignored'): the first refused annotation ends the tier",
              "an .eaf tier holding a zero-length annotation that is not the last of its tier: every later annotation of the tier is silently dropped"),
 "C19-r7-1": ("C19", ["C19"], "the tool builds the reference's unit tuples lazily (self._ref_units = [] assigned before the fill loop)",
              "one tool object shared by two threads, both inside their first use: the second sees a partial list and builds its corpus from a prefix of the reference"),
 "C02-r7-1": ("C02", ["C02", "C09"], "a helper adds a tie-breaking slope 1e-4 * rank / n to the costs handed to the solver BEFORE they are made relative to the largest disorder, so the slope does not scale with delta_empty",
              "delta_empty of about 1e-3 or less: the solver minimises disorder + rank penalty and returns a valid partition above the minimum (31 % of random continua at 1e-4)"),
 "C15-r7-1": ("C15", ["C15"], "the sampler's measuring helpers use the continuum's public iteration: units per annotator are counted with Counter(annotator for annotator, _ in reference), so an annotator without units drops out of the count",
              "init_sampling on a reference in which at least one annotator has no unit: the law of the number of units is measured on the non-empty annotators only"),
}
for i, (prop, cw, change, needs) in D.items():
    d = os.path.join(V, "seeded", i)
    if not os.path.exists(os.path.join(d, "patch.diff")):
        print("missing", i)
        continue
    log = open(os.path.join(d, "confirm.log")).read()
    lines = [l for l in log.splitlines() if re.match(r"(demo exit|suite with|--- re-confirmed)", l)]
    old = json.load(open(os.path.join(d, "meta.json"))) if os.path.exists(os.path.join(d, "meta.json")) else {}
    m = {"id": i, "property": prop, "check_with": cw, "change": change, "needs": needs,
         "written_by": "independent sub-agent (seventh round: given the property text, a scratch worktree at the repaired tree, one-line descriptions of the earlier "
                       "changes for its property, and asked for one change of the flavour those had used least among: interleaving, fault at a particular point, "
                       "multi-step sequence, unusual input, two cooperating sites)",
         "confirmed_by_me": lines, "confirm_command": f"selftest/confirm_seeded.sh /tmp/wt9-{prop} 1 {i}"}
    if "rebased" in old:
        m["rebased"] = old["rebased"]
    json.dump(m, open(os.path.join(d, "meta.json"), "w"), indent=1)
print("done")
