#!/venv/bin/python
"""Writes seeded/<id>/meta.json for the eighth-round changes from their confirm.log and selftest/r8_desc.json
({id: [property, check_with, change, needs]})."""
import json, os, re
V = os.path.dirname(os.path.dirname(os.path.abspath(__file__)))
D = json.load(open(os.path.join(V, "selftest", "r8_desc.json")))
for i, (prop, cw, change, needs) in D.items():
    d = os.path.join(V, "seeded", i)
    if not os.path.exists(os.path.join(d, "patch.diff")):
        print("missing", i)
        continue
    log = open(os.path.join(d, "confirm.log")).read()
    lines = [l for l in log.splitlines() if re.match(r"(demo exit|suite with|--- re-confirmed)", l)]
    m = {"id": i, "property": prop, "check_with": cw, "change": change, "needs": needs,
         "written_by": "independent sub-agent (eighth round: given the property text, a scratch worktree at the repaired tree and one-line descriptions of the "
                       "earlier changes for its property; asked for one change of a different mechanism that needs an interleaving, a fault at a particular "
                       "point, a multi-step sequence, an unusual input or two cooperating sites to manifest)",
         "confirmed_by_me": lines, "confirm_command": f"selftest/confirm_seeded.sh /tmp/wt10-{prop} 1 {i}"}
    json.dump(m, open(os.path.join(d, "meta.json"), "w"), indent=1)
print("done")
