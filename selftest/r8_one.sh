#!/bin/sh
# usage: selftest/r8_one.sh Cxx [extra check ids...]  - confirm the round-8 change of /tmp/wt10-Cxx, then take the first verdict (quick tier) on a scratch copy
P=$1; shift
V="$(cd "$(dirname "$0")/.." && pwd)"
ID=$P-r8-1
$V/selftest/confirm_seeded.sh /tmp/wt10-$P 1 $ID
S=$(mktemp -d -p /var/tmp pgv-r8-$P-XXXX)
cp -r /repo/pygamma_agreement $S/; rm -rf $S/pygamma_agreement/__pycache__
patch -p1 -s -d $S -i $V/seeded/$ID/patch.diff || { echo "patch failed"; exit 2; }
for C in $P "$@"; do
  VERIF_REPO=$S $V/vcheck $C --tier quick > /tmp/r8-$ID-$C.out 2>&1; echo "first verdict $ID with $C: exit=$? $(grep -c '^VIOLATION' /tmp/r8-$ID-$C.out) violation lines; $(grep -m2 'key=' /tmp/r8-$ID-$C.out | tr '\n' ' ')"
done
rm -rf $S
