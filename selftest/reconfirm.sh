#!/bin/sh
# usage: selftest/reconfirm.sh <id> [nosuite]
# Re-confirms a stored change against /repo's CURRENT HEAD (after a fix commit moved the base): scratch copy of the
# working tree outside /repo and /verif, seeded/<id>/patch.diff applied, demo wanted 0 without / 1 with the change,
# the repository's suite (38 passed) with the change.  Appends to seeded/<id>/confirm.log.
ID=$1
VERIF="$(cd "$(dirname "$0")/.." && pwd)"
D=$VERIF/seeded/$ID
S=$(mktemp -d /var/tmp/reconf-$ID-XXXX)
trap 'rm -rf $S' EXIT
git -C /repo archive HEAD | tar -x -C $S
head=$(git -C /repo rev-parse --short HEAD)
cd $S || exit 2
PYTHONPATH=$S timeout 1200 /venv/bin/python $D/demo.py > $S/clean.out 2>&1; c0=$?
patch -p1 -s < $D/patch.diff || { echo "$ID: patch does not apply to $head" | tee -a $D/confirm.log; exit 2; }
PYTHONPATH=$S timeout 1200 /venv/bin/python $D/demo.py > $S/changed.out 2>&1; c1=$?
suite="(not run)"
if [ "$2" != "nosuite" ]; then
  suite=$(PYTHONPATH=$S /venv/bin/python -m pytest -q -p no:cacheprovider --timeout=900 -n 6 --deselect tests/test_cli.py tests 2>&1 | grep -E "passed|failed|error" | tail -1)
fi
{
  echo "--- re-confirmed against /repo $head"
  echo "demo exit without change: $c0 (want 0)"
  echo "demo exit with change:    $c1 (want 1)"
  echo "suite with change:        $suite (want 38 passed)"
} >> $D/confirm.log
echo "$ID base=$head clean=$c0 changed=$c1 suite=$suite"
