#!/bin/sh
# usage: selftest/run_all.sh <tier> [seed] [props...]   - runs the checks one after the other, prints one line per check
tier=${1:-quick}; seed=${2:-0}; shift 2 2>/dev/null
props=${@:-C01 C02 C03 C04 C05 C06 C07 C08 C09 C10 C11 C12 C13 C14 C15 C16 C17 C18 C19 C20}
cd "$(dirname "$0")/.." || exit 2
for p in $props; do
  start=$(date +%s)
  VERIF_SEED=$seed ./vcheck $p --tier $tier > /tmp/vcheck-$p-$tier-$seed.out 2>&1
  rc=$?
  echo "$p tier=$tier seed=$seed exit=$rc wall=$(( $(date +%s) - start ))s :: $(grep -E '^\[' /tmp/vcheck-$p-$tier-$seed.out | tail -1 | cut -c1-200)"
  grep -E '^VIOLATION|^INCONCLUSIVE|^  key=' /tmp/vcheck-$p-$tier-$seed.out | cut -c1-300
done
