#!/venv/bin/python
"""Mutation self-test of the monitors (DESIGN.md section 6.2).  Not referenced by any MANIFEST command.

usage: selftest/run_mutants.py [--tier quick] [--only id1,id2] [--prop Cxx] [--jobs N]

Each mutant (selftest/mutants.json: {id, prop, file, old, new, [count], note}) is applied to a scratch copy of the
package *outside* /repo and /verif, the matching check is pointed at it with VERIF_REPO, exit 1 + a VIOLATION line is
expected, and the copy is removed."""
import argparse, json, os, shutil, subprocess, sys, tempfile, time
from concurrent.futures import ThreadPoolExecutor

VERIF = os.path.dirname(os.path.dirname(os.path.abspath(__file__)))
REPO = os.environ.get("VERIF_REPO", "/repo")


def run_one(m, tier):
    scratch = tempfile.mkdtemp(prefix=f"pgv-{m['id']}-", dir="/var/tmp")
    try:
        shutil.copytree(os.path.join(REPO, "pygamma_agreement"), os.path.join(scratch, "pygamma_agreement"),
                        ignore=shutil.ignore_patterns("__pycache__"))
        if m.get("patch"):
            r = subprocess.run(["patch", "-p1", "-s", "-d", scratch, "-i", os.path.abspath(os.path.join(VERIF, m["patch"]))],
                               capture_output=True, text=True)
            if r.returncode != 0:
                return m, "BAD-MUTANT", f"patch does not apply: {r.stdout[-200:]} {r.stderr[-200:]}", 0
        edits = [] if m.get("patch") else (m.get("edits") or [m])
        for ed in edits:
            path = os.path.join(scratch, ed["file"])
            s = open(path).read()
            cnt = ed.get("count", 1)
            if s.count(ed["old"]) != cnt:
                return m, "BAD-MUTANT", f"'{ed['old'][:40]}' occurs {s.count(ed['old'])} times, expected {cnt}", 0
            open(path, "w").write(s.replace(ed["old"], ed["new"]))
        t = time.time()
        props = m["prop"] if isinstance(m["prop"], list) else [m["prop"]]
        outs = []
        caught = False
        for prop in props:
            env = dict(os.environ, VERIF_REPO=scratch)
            r = subprocess.run([os.path.join(VERIF, "vcheck"), prop, "--tier", tier], env=env, cwd=VERIF,
                               capture_output=True, text=True, timeout=7200)
            vio = [l for l in r.stdout.splitlines() if l.startswith("VIOLATION")]
            keys = [l.strip() for l in r.stdout.splitlines() if l.strip().startswith("key=")]
            outs.append(f"{prop}: exit={r.returncode} {' | '.join(keys[:3])}"
                        + ("" if r.returncode in (0, 1) else " :: " + r.stdout[-300:].replace("\n", " / ")))
            if r.returncode == 1 and vio:
                caught = True
                if os.environ.get("SELFTEST_STOP_AT_FIRST_CATCH"):
                    break
        return m, ("CAUGHT" if caught else "MISSED"), "; ".join(outs), time.time() - t
    finally:
        shutil.rmtree(scratch, ignore_errors=True)
        for d in os.listdir(os.path.join(VERIF, "replays")):
            pass


def main():
    ap = argparse.ArgumentParser()
    ap.add_argument("--tier", default="quick")
    ap.add_argument("--only", default="")
    ap.add_argument("--prop", default="")
    ap.add_argument("--jobs", type=int, default=2)
    a = ap.parse_args()
    muts = json.load(open(os.path.join(VERIF, "selftest", "mutants.json")))
    # changes written by independent sub-agents (kept under seeded/<id>/ with their demonstration)
    seeded_root = os.path.join(VERIF, "seeded")
    if os.path.isdir(seeded_root):
        for d in sorted(os.listdir(seeded_root)):
            meta = os.path.join(seeded_root, d, "meta.json")
            if os.path.exists(meta):
                md = json.load(open(meta))
                muts.append({"id": "seeded-" + d, "prop": md.get("check_with") or [md["property"]],
                             "patch": os.path.join("seeded", d, "patch.diff"), "note": md.get("needs", "")})
    if a.only:
        muts = [m for m in muts if m["id"] in a.only.split(",")]
    if a.prop:
        muts = [m for m in muts if a.prop in (m["prop"] if isinstance(m["prop"], list) else [m["prop"]])]
    results = []
    with ThreadPoolExecutor(a.jobs) as ex:
        for m, verdict, info, dt in ex.map(lambda m: run_one(m, a.tier), muts):
            print(f"{verdict:10s} {m['id']:28s} {dt:6.0f}s  {info}", flush=True)
            results.append({"id": m["id"], "prop": m["prop"], "verdict": verdict, "info": info, "tier": a.tier})
    out = os.path.join(VERIF, "selftest", f"results-{a.tier}.json")
    old = {}
    if os.path.exists(out):
        old = {r["id"]: r for r in json.load(open(out))}
    for r in results:
        old[r["id"]] = r
    json.dump(sorted(old.values(), key=lambda r: r["id"]), open(out, "w"), indent=1)
    missed = [r for r in results if r["verdict"] != "CAUGHT"]
    print(f"{len(results) - len(missed)}/{len(results)} caught")
    return 1 if missed else 0


if __name__ == "__main__":
    sys.exit(main())
