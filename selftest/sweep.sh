#!/bin/sh
# usage: selftest/sweep.sh <tier> <seed> [<seed> ...]  - all checks for each seed
tier=$1; shift
for s in "$@"; do "$(dirname "$0")/run_all.sh" $tier $s; done
