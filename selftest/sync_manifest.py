#!/venv/bin/python
"""Rewrites the per-check workload text (level_claimed.text after 'Workload of this check: ') and level_note of
MANIFEST.json from the RULE / ASSUMPTIONS constants of vframework/props/Cxx.py, so that the manifest says what the
checks do now."""
import importlib, json, os, sys
V = os.path.dirname(os.path.dirname(os.path.abspath(__file__)))
sys.path.insert(0, V)
p = os.path.join(V, "MANIFEST.json")
m = json.load(open(p))
MARK = "Workload of this check: "
changed = 0
for c in m["checks"]:
    mod = importlib.import_module(f"vframework.props.{c['property_id']}")
    t = c["level_claimed"]["text"]
    head = t[:t.index(MARK) + len(MARK)]
    new = head + mod.RULE
    note = "; ".join(mod.ASSUMPTIONS)
    if new != t or note != c.get("level_note"):
        changed += 1
    c["level_claimed"]["text"] = new
    c["level_note"] = note
json.dump(m, open(p, "w"), indent=1)
print("checks updated:", changed)
