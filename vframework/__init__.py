"""Runtime-monitoring framework for pygamma-agreement (see /verif/DESIGN.md)."""
