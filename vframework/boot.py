"""Offline dependency bootstrap: icontract + jsonschema -> <verif>/.deps from the local wheelhouse.

Idempotent and safe to call concurrently (fcntl lock).  Used by MANIFEST.setup_cmd and by every check
(the .deps directory is git-ignored, so a fresh restore does not have it)."""
import fcntl
import os
import subprocess
import sys

VERIF = os.path.dirname(os.path.dirname(os.path.abspath(__file__)))
DEPS = os.path.join(VERIF, ".deps")
WHEELS = "/opt/veriftools/wheels"
STAMP = os.path.join(DEPS, ".ok")
PKGS = ["icontract", "jsonschema"]


def ensure_deps() -> str:
    if not os.path.exists(STAMP):
        os.makedirs(DEPS, exist_ok=True)
        with open(os.path.join(DEPS, ".lock"), "w") as lock:
            fcntl.flock(lock, fcntl.LOCK_EX)
            if not os.path.exists(STAMP):
                env = dict(os.environ, PIP_NO_INDEX="1", PIP_DISABLE_PIP_VERSION_CHECK="1")
                subprocess.check_call([sys.executable, "-m", "pip", "install", "-q", "--no-index",
                                       "--find-links", WHEELS, "--target", DEPS, "--upgrade"] + PKGS,
                                      env=env, stdout=subprocess.DEVNULL)
                with open(STAMP, "w") as f:
                    f.write("ok\n")
    if DEPS not in sys.path:
        sys.path.append(DEPS)   # appended: never shadows the repository's own environment
    return DEPS


if __name__ == "__main__":
    ensure_deps()
    import icontract  # noqa
    import jsonschema  # noqa
    print("deps ok:", DEPS)
