"""Seeded generators and builders for continua, dissimilarities and alignments.

A *spec* is plain JSON data (so that every case can be hashed, stored in a replay file and rebuilt):
  continuum spec : {"ann": {"annotator": [[start, end, label-or-None], ...], ...}}
  dissim spec    : {"kind": ..., parameters...}   (see build_dissim)
"""
import itertools
import math
import struct


def f32(x):
    """Nearest single-precision value, as a Python float: generated times are float32-representable so that the
    library's float32 arrays hold exactly the numbers its float64 unit objects hold."""
    return struct.unpack("f", struct.pack("f", x))[0]

LABELS_SMALL = ["a", "b", "c"]
# legal but unusual labels: the empty string and other falsy-looking / None-looking strings (a category is "given" iff it is not None)
LABELS_ODD = ["", "0", " ", "None", "a"]
LABELS_WORDS = ["Noun", "Verb", "Adj", "Adv", "Det", "N", "Nouns", "verb"]
LABELS_NUM = ["1", "2", "3", "5", "10", "12", "20", "100"]
# names that are prefixes / suffixes / repetitions of each other (string algorithms, substring tests)
LABELS_REPEATS = ["a", "aa", "aaa", "ab", "abab", "1", "11", "112", "12", "cat_1", "cat_11", "cat_111", "NP", "N", "VP", "V"]
ANNOTATOR_NAMES = ["alex", "bob", "carl", "dora", "eve"]
# name sets whose alphabetical order differs from other plausible orders (numeric, case-insensitive, insertion)
NAME_SETS = [
    ["alex", "bob", "carl", "dora", "eve"],
    ["rater_9", "rater_10", "rater_2", "rater_100", "rater_11"],
    ["annotator_2", "annotator_10", "annotator_1", "annotator_20", "annotator_3"],
    ["coder7", "coder12", "Coder3", "coder1", "CODER9"],
    ["Zoe", "adam", "Bob", "carl", "_x"],
    ["b", "a", "ab", "B", "aa"],
    ["é", "e", "z", "E", "f"],
    ["Sampled_annotation 0", "Sampled_annotation 1", "Sampled_annotation 10", "Sampled_annotation 2", "Ref"],
]


def pick_names(rng, n):
    names = list(rng.choice(NAME_SETS))
    rng.shuffle(names)
    return names[:n]

FAMILIES = ["grid", "dyadic", "generic", "nested", "identical", "longoverlap", "touching", "negative",
            "offset", "tiny", "mixeddur", "dense", "heavytail"]
# "coarse" (times float32 cannot hold exactly) is NOT in the default list: only the checks whose reference follows the
# library's float32 model ask for it explicitly


# --------------------------------------------------------------------------- continua
def gen_segments(rng, family, k, horizon=None):
    """k distinct-ish (start, end) pairs of the given family (positive duration)."""
    segs = []
    T = horizon or max(8, 4 * k)
    if family == "grid":
        for _ in range(k):
            s = rng.randrange(0, T)
            segs.append((float(s), float(s + rng.randint(1, 6))))
    elif family == "dyadic":
        for _ in range(k):
            s = rng.randrange(0, 8 * T) / 8.0
            segs.append((s, s + rng.randint(1, 40) / 8.0))
    elif family == "generic":
        for _ in range(k):
            s = f32(rng.uniform(0, T))
            segs.append((s, f32(s + rng.uniform(0.05, 6.0))))
    elif family == "nested":
        c = rng.uniform(T / 3, 2 * T / 3)
        for i in range(k):
            c2 = c + rng.uniform(-0.5, 0.5)
            h = (k - i) * rng.uniform(0.5, 1.5)
            segs.append((f32(c2 - h), f32(c2 + h)))
    elif family == "longoverlap":
        for _ in range(k):
            s = float(rng.randrange(0, T))
            segs.append((s, s + float(rng.choice([1, 2, 3, 12, 15, 15, 20]))))
    elif family == "touching":
        t = float(rng.randrange(0, 4))
        for _ in range(k):
            d = float(rng.randint(1, 4))
            segs.append((t, t + d))
            t += d
    elif family == "negative":
        for _ in range(k):
            s = float(rng.randrange(-3 * T, -1))
            segs.append((s, s + rng.randint(1, 6)))
    elif family == "offset":
        base = float(rng.choice([256, 1024, 4096]))
        for _ in range(k):
            s = base + rng.randrange(0, 8 * T) / 8.0
            segs.append((s, s + rng.randint(1, 40) / 8.0))
    elif family == "coarse":
        # timestamps coarser than float32 can resolve (around 2**24 the float32 step is 2) next to units near 0: every
        # computation must round them the same way
        for _ in range(k):
            if rng.random() < 0.5:
                s = float(2 ** 24 + rng.randrange(-40, 400))
            else:
                s = float(rng.randrange(0, 40))
            segs.append((s, s + float(rng.choice([3, 5, 8, 12, 31]))))
    elif family == "dense":
        # many overlapping units in a short span: the integer programme is not solved at the root node
        for _ in range(k):
            s = f32(rng.uniform(0, 10))
            segs.append((s, f32(s + rng.uniform(0.6, 5.6))))
    elif family == "mixeddur":
        # short and long units starting close to each other: relative (length-normalised) distances are not
        # monotone in the start time
        for _ in range(k):
            s = float(rng.randrange(0, 10))
            segs.append((s, s + float(rng.choice([1, 1, 1, 5, 8, 25, 30]))))
    elif family == "heavytail":
        # durations over three orders of magnitude, the long units tending to start later: a unit that starts far after
        # another one can still be its best partner (the positional dissimilarity is relative to the durations), so
        # nothing may be concluded from the start order alone
        for _ in range(k):
            d = float(rng.choice([1, 1, 2, 5, 20, 100, 400, 1750]))
            s = float(rng.randrange(0, 40) if d < 20 else rng.randrange(0, 300))
            segs.append((s, s + d))
    elif family == "tiny":
        for _ in range(k):
            s = rng.randrange(0, 64) / 64.0
            segs.append((s, s + rng.randint(1, 16) / 64.0))
    else:
        raise ValueError(family)
    return segs


def gen_continuum(rng, n_annot=None, max_units=4, family=None, labels=None, p_none=0.0, allow_empty=True,
                  min_total=1, names=None, sizes=None):
    """Random continuum spec.  Units of one annotator are distinct (the container is a set)."""
    n = n_annot or rng.randint(2, 5)
    family = family or rng.choice(FAMILIES)
    labels = labels if labels is not None else LABELS_SMALL
    if names is None and rng.random() < 0.3:
        names = pick_names(rng, n)      # names whose alphabetical order differs from numeric / case-insensitive order
    names = list(names or ANNOTATOR_NAMES[:n])
    while True:
        if sizes is None:
            lo = 0 if allow_empty else 1
            szs = [rng.randint(lo, max_units) for _ in range(n)]
        else:
            szs = list(sizes)
            if sum(szs) < min_total:
                raise ValueError("gen_continuum: the sizes given cannot reach min_total")
        if sum(szs) >= min_total:
            break
    ann = {}
    if family == "identical":
        base = gen_segments(rng, rng.choice(["grid", "dyadic", "touching"]), max(szs) if szs else 1)
        base_l = [rng.choice(labels) for _ in base]
    horizon = max(8, 4 * max(szs + [1]))
    for name, k in zip(names, szs):
        units = set()
        tries = 0
        while len(units) < k and tries < 50 * (k + 1):
            tries += 1
            if family == "identical":
                idx = rng.randrange(len(base))
                s, e = base[idx]
                lab = base_l[idx] if rng.random() < 0.8 else rng.choice(labels)
                if rng.random() < 0.15:
                    e = e + rng.choice([0.5, 1.0])
            else:
                s, e = gen_segments(rng, family, 1, horizon)[0]
                lab = rng.choice(labels)
            if p_none and rng.random() < p_none:
                lab = None
            if e - s <= 1e-4:
                continue
            units.add((s, e, lab))
        ann[name] = sorted(units, key=unit_key)
    spec = {"ann": {a: [list(u) for u in us] for a, us in ann.items()}, "family": family}
    if rng.random() < 0.1:
        spec["readd"] = rng.randint(1, 3)     # some units are added twice (see build_continuum): a no-op on a set
    if rng.random() < 0.1:
        # same values, but handed over as numpy scalars (times taken from an array, a cumulative sum, a data frame)
        spec["time_type"] = "np.float64"
    elif rng.random() < 0.1 and all(float(t).is_integer() for us in ann.values() for u in us for t in u[:2]):
        spec["time_type"] = "int"
    return spec


def unit_key(u):
    """Documented strict total order: start, end, then label with the unlabelled unit first."""
    return (u[0], u[1], u[2] is not None, u[2] or "")


def build_continuum(spec):
    from pygamma_agreement import Continuum
    from pyannote.core import Segment
    c = Continuum()
    wrap = float
    if spec.get("time_type") == "np.float64":
        import numpy as np
        wrap = np.float64
    elif spec.get("time_type") == "int":
        # whole-number times as plain Python ints (frame or sample indices): the same values, another number type
        wrap = lambda x: int(x) if float(x).is_integer() and abs(x) < 2 ** 53 else float(x)   # noqa: E731
    for a, units in spec["ann"].items():
        c.add_annotator(a)
        for s, e, lab in units:
            c.add(a, Segment(wrap(s), wrap(e)), lab)
    if spec.get("readd"):
        # the same (annotator, segment, label) added again (a duplicated row, two overlapping batches): the container is
        # a set, the continuum is what it was
        flat = [(a, u) for a, units in spec["ann"].items() for u in units]
        for i in range(min(int(spec["readd"]), len(flat))):
            a, (s, e, lab) = flat[(7 * i + 3) % len(flat)]
            c.add(a, Segment(wrap(s), wrap(e)), lab)
    return c


def spec_of(continuum):
    ann = {}
    for a in continuum.annotators:
        ann[a] = []
    for a, u in continuum:
        ann[a].append([u.segment.start, u.segment.end, u.annotation])
    return {"ann": ann}


def continuum_tuples(continuum):
    """Multiset-free view: set of (annotator, start, end, label)."""
    return {(a, u.segment.start, u.segment.end, u.annotation) for a, u in continuum}


def spec_labels(spec):
    return sorted({u[2] for us in spec["ann"].values() for u in us if u[2] is not None})


def spec_num_units(spec):
    return sum(len(us) for us in spec["ann"].values())


def spec_shape(spec):
    return "x".join(str(len(us)) for us in spec["ann"].values())


# --------------------------------------------------------------------------- dissimilarities
DELTAS = [0.1, 0.5, 1.0, 2.0, 3.7]
ALPHABETA = [0.0, 0.5, 1.0, 3.0]


def gen_dissim(rng, kinds=None, labels=None, allow_component_delta=True):
    """Random dissimilarity spec.  Kinds with a category set carry it ("cats"), so the continuum generated for
    them must draw its labels from that set."""
    kinds = kinds or ["positional", "absolute", "precomputed", "levenshtein", "ordinal", "numerical", "combined"]
    kind = rng.choice(kinds)
    delta = rng.choice(DELTAS)
    if rng.random() < 0.35:     # any real value, not only the round ones (float32 rounding of delta_empty-scaled sums differs)
        delta = rng.choice([round(rng.uniform(0.05, 6.0), 1), round(rng.uniform(0.05, 6.0), 3), rng.choice([1.7, 2.9, 3.4, 3.9, 5.8, 0.3, 0.7])])
    if kind in ("positional", "absolute"):
        return {"kind": kind, "delta": delta}
    if kind == "precomputed":
        cats = sorted(labels or rng.sample(LABELS_REPEATS if rng.random() < 0.3 else LABELS_WORDS, rng.randint(1, 5)))
        k = len(cats)
        m = [[0.0] * k for _ in range(k)]
        for i in range(k):
            for j in range(i):
                m[i][j] = m[j][i] = round(rng.choice([0.0, 0.25, 0.5, 1.0, rng.random()]), 4)
        spec = {"kind": kind, "cats": cats, "matrix": m, "delta": delta}
        if rng.random() < 0.15:    # the caller goes on using (overwriting) the array it handed over
            spec["caller_edits_matrix"] = True
        r = rng.random()
        if r < 0.3:      # the matrix as users write it down: whole numbers in an integer array, or a boolean "differs" table
            dt = "int" if r < 0.2 else "bool"
            for i in range(k):
                for j in range(i):
                    m[i][j] = m[j][i] = float(rng.choice([0, 1, 2, 3]) if dt == "int" else rng.choice([0, 1, 1]))
            spec["matrix_dtype"] = dt
        elif r < 0.4:
            spec["matrix_dtype"] = "float64"
        return spec
    if kind == "levenshtein":
        cats = list(labels or rng.sample(LABELS_REPEATS if rng.random() < 0.4 else LABELS_WORDS, rng.randint(1, 6)))
        rng.shuffle(cats)
        return {"kind": kind, "cats": cats, "delta": delta}
    if kind == "ordinal":
        cats = list(labels or rng.sample(LABELS_WORDS + LABELS_NUM, rng.randint(1, 6)))
        rng.shuffle(cats)
        p = None
        if rng.random() < 0.5:
            p = [float(rng.choice([0, 1, 2, 3, 5, 8, -2, 2.5, 10])) for _ in cats]
            if rng.random() < 0.3:   # positions far from 0 (time stamps, ids): only their distances matter
                base = rng.choice([1.7e9, 2.0 ** 24, 1e7, -3e8])
                p = [base + float(rng.choice([0, 1, 2, 3, 5, 8, 60, 3600])) for _ in cats]
        spec = {"kind": kind, "cats": cats, "p": p, "delta": delta}
        if p is not None and all(float(x).is_integer() for x in p) and rng.random() < 0.4:
            # whole-number positions as users hold them: a numpy integer array (unsigned when none is negative) or plain ints
            lo, hi = min(p), max(p)
            if abs(lo) >= 2 ** 31 or abs(hi) >= 2 ** 31:
                spec["p_dtype"] = "pyint"
            elif lo >= 0 and hi < 256:
                spec["p_dtype"] = rng.choice(["uint8", "uint16", "pyint"])
            elif lo >= 0:
                spec["p_dtype"] = rng.choice(["uint32", "uint64"] + (["uint16"] if hi < 65536 else []))
            else:
                spec["p_dtype"] = rng.choice(["int64", "int32", "pyint"])
        return spec
    if kind == "numerical":
        pool_num = LABELS_NUM
        if not labels and rng.random() < 0.25:
            # numerical categories beyond the 24 bits of a float32: dates written as numbers, identifiers, large counts
            base = rng.choice([20230100, 16777216, 1700000000, 123456700])
            pool_num = [str(base + k) for k in (0, 1, 2, 4, 5, 9, 30, 31)]
        cats = list(labels or rng.sample(pool_num, rng.randint(1, 6)))
        rng.shuffle(cats)
        return {"kind": kind, "cats": cats, "delta": delta}
    if kind == "combined":
        while True:
            alpha, beta = rng.choice(ALPHABETA), rng.choice(ALPHABETA)
            if alpha or beta:
                break
        cat = None
        if rng.random() < 0.7:
            cat = gen_dissim(rng, ["absolute", "precomputed", "levenshtein", "ordinal", "numerical"], labels)
            if not allow_component_delta or rng.random() < 0.5:
                cat["delta"] = delta
        pos = None
        if rng.random() < 0.4:
            pos = {"delta": delta if (not allow_component_delta or rng.random() < 0.5) else rng.choice(DELTAS)}
        return {"kind": kind, "alpha": alpha, "beta": beta, "delta": delta, "pos": pos, "cat": cat}
    raise ValueError(kind)


def dissim_labels(dspec):
    """Category set a continuum must stay within for this dissimilarity (None = any labels)."""
    if dspec["kind"] in ("precomputed", "levenshtein", "ordinal", "numerical"):
        return sorted(dspec["cats"])
    if dspec["kind"] == "combined" and dspec.get("cat"):
        return dissim_labels(dspec["cat"])
    return None


def dissim_allows_unlabelled(dspec):
    return dissim_labels(dspec) is None


_custom = {}


def linear_positional_class():
    """A user-defined positional dissimilarity (the combined dissimilarity's positional component is pluggable): the
    sporadic distance without the square, in both forms."""
    if "linear" not in _custom:
        import numpy as np
        from pygamma_agreement.dissimilarity import AbstractDissimilarity, dissimilarity_dec

        class LinearPositionalDissimilarity(AbstractDissimilarity):
            _verif_custom = "linear"

            def __init__(self, delta_empty=1.0):
                super().__init__(delta_empty=delta_empty)

            def compile_d_mat(self):
                delta_empty = self.delta_empty

                @dissimilarity_dec
                def d_mat(unit1, unit2):
                    return ((np.abs(unit1[0] - unit2[0]) + np.abs(unit1[1] - unit2[1])) / (unit1[2] + unit2[2])) * delta_empty
                return d_mat

            def d(self, unit1, unit2):
                return ((abs(unit1.segment.start - unit2.segment.start) + abs(unit1.segment.end - unit2.segment.end)) /
                        (unit1.segment.duration + unit2.segment.duration)) * self.delta_empty
        _custom["linear"] = LinearPositionalDissimilarity
    return _custom["linear"]


def build_dissim(dspec):
    import numpy as np
    import pygamma_agreement as pa
    from sortedcontainers import SortedSet
    k = dspec["kind"]
    d = dspec.get("delta", 1.0)
    if k == "positional":
        return pa.PositionalSporadicDissimilarity(delta_empty=d)
    if k == "absolute":
        return pa.AbsoluteCategoricalDissimilarity(delta_empty=d)
    if k == "precomputed":
        dt = {"int": np.int64, "bool": np.bool_, "float64": np.float64}.get(dspec.get("matrix_dtype"), np.float32)
        arr = np.array(dspec["matrix"]).astype(dt)
        obj = pa.PrecomputedCategoricalDissimilarity(SortedSet(dspec["cats"]), arr, delta_empty=d)
        if dspec.get("caller_edits_matrix"):
            arr[...] = (arr == 0) if dt is np.bool_ else arr + 3    # the dissimilarity was defined by the values given at construction
        return obj
    if k == "levenshtein":
        return pa.LevenshteinCategoricalDissimilarity(list(dspec["cats"]), delta_empty=d)
    if k == "ordinal":
        p = dspec.get("p")
        if p is not None and dspec.get("p_dtype"):
            p = [int(x) for x in p] if dspec["p_dtype"] == "pyint" else np.array([int(x) for x in p], dtype=dspec["p_dtype"])
        return pa.OrdinalCategoricalDissimilarity(list(dspec["cats"]), p=p, delta_empty=d)
    if k == "numerical":
        return pa.NumericalCategoricalDissimilarity(list(dspec["cats"]), delta_empty=d)
    if k == "combined":
        pos = None if dspec.get("pos") is None else (
            linear_positional_class() if dspec["pos"].get("custom") == "linear" else pa.PositionalSporadicDissimilarity)(dspec["pos"]["delta"])
        cat = None if dspec.get("cat") is None else build_dissim(dspec["cat"])
        kwargs = {}            # components that are not given are OMITTED (the signature's defaults apply), not passed as None
        if pos is not None:
            kwargs["pos_dissim"] = pos
        if cat is not None:
            kwargs["cat_dissim"] = cat
        return pa.CombinedCategoricalDissimilarity(alpha=dspec["alpha"], beta=dspec["beta"], delta_empty=d, **kwargs)
    raise ValueError(k)


class DissimPool:
    """Dissimilarity objects are expensive to build (each compiles a kernel): keep them per spec."""

    def __init__(self):
        self._cache = {}

    def get(self, dspec):
        from .ctx import canon
        key = canon(dspec)
        if key not in self._cache:
            self._cache[key] = build_dissim(dspec)
        return self._cache[key]

    def __len__(self):
        return len(self._cache)


def gen_pool_specs(rng, n, kinds=None, allow_component_delta=True):
    specs, seen = [], set()
    from .ctx import canon
    tries = 0
    while len(specs) < n and tries < 20 * n:
        tries += 1
        s = gen_dissim(rng, kinds, allow_component_delta=allow_component_delta)
        k = canon(s)
        if k not in seen:
            seen.add(k)
            specs.append(s)
    return specs


# --------------------------------------------------------------------------- alignments
def random_partition_alignment(rng, cspec, p_join=0.6):
    """A random valid partition of the continuum's units into n-slot tuples (spec form):
    list of {annotator: unit-index-or-None}."""
    names = list(cspec["ann"].keys())
    remaining = {a: list(range(len(cspec["ann"][a]))) for a in names}
    for a in names:
        rng.shuffle(remaining[a])
    out = []
    while any(remaining.values()):
        tup = {}
        nonempty = [a for a in names if remaining[a]]
        first = rng.choice(nonempty)
        for a in names:
            if remaining[a] and (a == first or rng.random() < p_join):
                tup[a] = remaining[a].pop()
            else:
                tup[a] = None
        out.append(tup)
    rng.shuffle(out)
    return out


def build_alignment(cspec, aspec, continuum=None, soft=False, slot_order=None, check=False, disorder=None):
    """Build a library Alignment from an alignment spec (list of {annotator: index-or-None})."""
    from pygamma_agreement.alignment import Alignment, SoftAlignment, UnitaryAlignment
    from pygamma_agreement.continuum import Unit
    from pyannote.core import Segment
    uas = []
    for tup in aspec:
        if isinstance(tup, list):
            # explicit list of [annotator, value] slots: an annotator may be named twice, another not at all
            pairs = [(a, i) for a, i in tup]
        else:
            names = list(tup.keys())
            if slot_order is not None:
                names = [n for n in slot_order if n in tup]
            pairs = [(a, tup[a]) for a in names]
        n_tuple = []
        for a, i in pairs:
            if i is None:
                n_tuple.append((a, None))
            elif isinstance(i, (list, tuple)):   # explicit foreign unit [s, e, label]
                n_tuple.append((a, Unit(Segment(i[0], i[1]), i[2])))
            else:
                s, e, lab = cspec["ann"][a][i]
                n_tuple.append((a, Unit(Segment(s, e), lab)))
        uas.append(UnitaryAlignment(n_tuple))
    cls = SoftAlignment if soft else Alignment
    return cls(uas, continuum=continuum, check_validity=check, disorder=disorder)


def all_set_partitions_alignments(cspec, limit=None):
    """Every partition of the continuum's units into unitary alignments (spec form), small continua only."""
    names = list(cspec["ann"].keys())
    units = [(a, i) for a in names for i in range(len(cspec["ann"][a]))]

    def rec(rest):
        if not rest:
            yield []
            return
        (a0, i0), tail = rest[0], rest[1:]
        others = [a for a in names if a != a0]
        # choose for each other annotator either None or one of its remaining units
        choices = []
        for a in others:
            choices.append([None] + [(a, i) for (b, i) in tail if b == a])
        for combo in itertools.product(*choices):
            used = {(a0, i0)} | {c for c in combo if c is not None}
            tup = {a: None for a in names}
            tup[a0] = i0
            for c in combo:
                if c is not None:
                    tup[c[0]] = c[1]
            rest2 = [u for u in tail if u not in used]
            for sub in rec(rest2):
                yield [tup] + sub
    count = 0
    for al in rec(units):
        yield al
        count += 1
        if limit and count >= limit:
            return
