"""Worker-side recording context: cases, monitor evaluation counters, observations, failures.

Everything a check claims in its evidence file is *measured* here while the workload runs."""
import collections
import hashlib
import json
import os
import random
import threading
import time
import traceback


def canon(obj):
    """Canonical JSON text of a case (sorted keys; floats by repr)."""
    return json.dumps(obj, sort_keys=True, separators=(",", ":"), default=_default)


def _default(o):
    try:
        import numpy as np
        if isinstance(o, np.generic):
            return o.item()
        if isinstance(o, np.ndarray):
            return o.tolist()
    except Exception:
        pass
    if isinstance(o, (set, frozenset)):
        return sorted(o, key=repr)
    return repr(o)


def case_hash(case) -> str:
    return hashlib.sha1(canon(case).encode()).hexdigest()[:16]


class Ctx:
    MAX_FAILS_PER_KEY = 4
    MAX_SAMPLES = 6

    def __init__(self, prop, tier, seed, shard, nshards, params, outdir, replay=False):
        self.prop, self.tier, self.seed = prop, tier, int(seed)
        self.shard, self.nshards, self.params = shard, nshards, params or {}
        self.outdir = outdir
        self.replay = replay
        self.rng = random.Random(f"{prop}:{seed}:{shard}")
        self.t0 = time.time()
        self.time_budget = float(self.params.get("time_budget", 1e9))
        self.evaluations = 0
        self.hashes = set()
        self.partitioned = set()   # keys of cases that only this shard can own (hash-partitioned enumeration)
        self.trivial = 0
        self.trivial_partitioned = 0
        self.monitors = collections.Counter()
        self.observed = collections.defaultdict(collections.Counter)
        self.samples = []
        self.fail_counts = collections.Counter()
        self.current = None
        self._fails_f = open(os.path.join(outdir, "fails.jsonl"), "a")
        self._cur_path = os.path.join(outdir, "current.json")
        self._cur_every = int(self.params.get("current_every", 1))
        self.notes = {}
        self.inconclusive = []
        self._lock = threading.RLock()   # monitors are also called from worker / user threads

    # ---- numpy generator derived from the python one (so one seed drives both)
    def np_rng(self):
        import numpy as np
        return np.random.default_rng(self.rng.getrandbits(63))

    def scale(self, quick, thorough):
        return thorough if self.tier == "thorough" else quick

    def time_left(self):
        return self.time_budget - (time.time() - self.t0)

    def out_of_time(self):
        return self.time_left() <= 0

    # ---- cases
    def begin_case(self, case, nontrivial=True, key=None, partitioned=False):
        """Register the case about to be executed (also written to disk so that a crash can be replayed)."""
        self.current = case
        self.evaluations += 1
        if partitioned:
            self.partitioned.add(key)
            if not nontrivial:
                self.trivial_partitioned += 1
        elif nontrivial:
            self.hashes.add(key if key is not None else case_hash(case))
        else:
            self.trivial += 1
        if self._cur_every and self.evaluations % self._cur_every == 0:
            try:
                with open(self._cur_path, "w") as f:
                    f.write(canon(case))
            except Exception:
                pass
        if len(self.samples) < self.MAX_SAMPLES and (self.evaluations in (1, 2) or self.rng.random() < 0.01):
            self.samples.append(json.loads(canon(case)))

    def count(self, monitor, n=1):
        with self._lock:
            self.monitors[monitor] += n

    def observe(self, name, value, n=1):
        with self._lock:
            self.observed[name][str(value)] += n

    def note(self, name, value):
        self.notes[name] = value

    def inconclusive_because(self, reason):
        """The oracle (not the library) could not decide a case: never folded into held or violated."""
        if len(self.inconclusive) < 5:
            self.inconclusive.append(str(reason)[:400])

    # ---- failures
    def fail(self, key, detail, case=None, monitor=None):
        """Record a monitor failure.  `key` is the mechanism key used by the known-findings classifier."""
        with self._lock:
            self.fail_counts[key] += 1
            if self.fail_counts[key] <= self.MAX_FAILS_PER_KEY:
                rec = {"key": key, "detail": detail, "monitor": monitor,
                       "case": json.loads(canon(case if case is not None else self.current)),
                       "shard": self.shard, "seed": self.seed, "tier": self.tier}
                self._fails_f.write(canon(rec) + "\n")
                self._fails_f.flush()

    def fail_exc(self, key, exc, case=None, monitor=None):
        self.fail(key, {"exception": type(exc).__name__, "message": str(exc)[:500],
                        "trace": traceback.format_exc()[-1500:]}, case=case, monitor=monitor)

    def finish(self, status="done"):
        summary = {
            "status": status, "shard": self.shard, "evaluations": self.evaluations,
            "hashes": sorted(self.hashes), "trivial": self.trivial,
            "partitioned_distinct": len(self.partitioned) - self.trivial_partitioned,
            "monitors": dict(self.monitors),
            "observed": {k: dict(v) for k, v in self.observed.items()},
            "samples": self.samples, "fail_counts": dict(self.fail_counts),
            "notes": self.notes, "inconclusive": self.inconclusive, "wall_s": round(time.time() - self.t0, 2),
        }
        with open(os.path.join(self.outdir, "summary.json"), "w") as f:
            json.dump(summary, f, default=_default)
        self._fails_f.close()


CTX: "Ctx" = None  # set by the worker; monitors look it up here
