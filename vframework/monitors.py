"""Passive monitors attached to the live library (DESIGN.md section 3).

Check functions return a list of problem strings (empty = fine).  Installers wrap the real methods with
icontract post-conditions / class invariants whose conditions *record and return True*: the workload is
never aborted by a monitor, and each evaluation is counted so that a monitor that was never reached makes
the verdict inconclusive."""
import contextlib
import threading

from . import ctx as ctxmod
from . import oracles
from .cases import unit_key


def _ut(u):
    return (u.segment.start, u.segment.end, u.annotation)


# =========================================================================== M-PART / M-COVER
def check_partition(continuum, alignment, cover=False):
    problems = []
    annotators = list(continuum.annotators)
    aset = set(annotators)
    n = len(annotators)
    truth = {a: {_ut(u) for u in continuum._annotations[a]} for a in annotators}
    counts = {}
    uas = list(alignment.unitary_alignments)
    if not uas:
        problems.append("alignment has no unitary alignment")
    for k, ua in enumerate(uas):
        nt = ua.n_tuple
        if len(nt) != n:
            problems.append(f"unitary alignment {k} has {len(nt)} slots for {n} annotators")
        names = [a for a, _ in nt]
        if len(set(names)) != len(names):
            problems.append(f"unitary alignment {k} lists an annotator twice: {names}")
        if set(names) != aset:
            problems.append(f"unitary alignment {k} annotators {sorted(set(names))} != continuum's {sorted(aset)}")
        real = 0
        for a, u in nt:
            if u is None:
                continue
            real += 1
            t = _ut(u)
            if a not in truth or t not in truth[a]:
                problems.append(f"unitary alignment {k} holds a unit foreign to the continuum: {a} {t}")
            counts[(a,) + t] = counts.get((a,) + t, 0) + 1
        if real == 0:
            problems.append(f"unitary alignment {k} is all-empty")
    for a in annotators:
        for t in truth[a]:
            c = counts.get((a,) + t, 0)
            if c == 0:
                problems.append(f"unit missing from the alignment: {a} {t}")
            elif c > 1 and not cover:
                problems.append(f"unit placed {c} times: {a} {t}")
    return problems[:6]


# =========================================================================== M-DIS
def compiled_pair_cost(dissim, categories):
    """Unit-to-unit cost through the compiled kernel on float32 arrays built here (the precision model of the
    library itself): used when the inputs are arbitrary doubles, for which d() in float64 legitimately differs."""
    import numpy as np
    cats = list(dissim.categories) if dissim.categories is not None else list(categories)
    index = {c: i for i, c in enumerate(cats)}

    def arr(u):
        return np.array([u.segment.start, u.segment.end, u.segment.end - u.segment.start,
                         index[u.annotation] if u.annotation is not None else len(cats)], dtype=np.float32)

    def cost(u1, u2):
        return float(dissim.d_mat(arr(u1), arr(u2)))
    return cost


def check_disorders(continuum, alignment, dissim, carried=True, via="d"):
    """Cached alignment disorder and carried unitary disorders against the definition recomputed (float64 pair
    mean) from the units; pair costs through the dissimilarity's unit-to-unit function d() (via="d") or through
    its compiled kernel on float32 arrays (via="d_mat", for inputs that are not float32-representable)."""
    problems = []
    total = 0.0
    if via == "d_mat":
        cats = continuum.categories if continuum is not None else sorted(
            {u.annotation for ua in alignment.unitary_alignments for _, u in ua.n_tuple if u is not None and u.annotation is not None})
        pair = compiled_pair_cost(dissim, cats)
    else:
        pair = dissim.d
    for k, ua in enumerate(alignment.unitary_alignments):
        nt = ua.n_tuple
        units = [u for _, u in nt]
        ref = oracles.ref_unitary_disorder(units, pair, dissim.delta_empty)
        total += ref
        if carried:
            try:
                got = float(ua.disorder)
            except ValueError:
                problems.append(f"unitary alignment {k} carries no disorder")
                continue
            if not oracles.close(got, ref):
                problems.append(f"unitary alignment {k} carries disorder {got!r}, definition gives {ref!r}")
    if continuum is not None:
        avg = continuum.num_units / len(continuum.annotators)
    else:
        avg = sum(1 for ua in alignment.unitary_alignments for _, u in ua.n_tuple if u is not None) \
              / len(alignment.unitary_alignments[0].n_tuple)
    ref_total = total / avg
    got_total = float(alignment.disorder)
    if not oracles.close(got_total, ref_total):
        problems.append(f"alignment disorder {got_total!r}, definition gives {ref_total!r}")
    return problems[:6], ref_total


# =========================================================================== M-INV
def continuum_invariant_problems(c):
    """Class invariant of Continuum, looking only at private state (never calls a public method)."""
    problems = []
    ann = c._annotations
    keys = list(ann.keys())
    if keys != sorted(keys):
        problems.append(f"annotators not sorted: {keys}")
    labels = set()
    lo, hi = None, None
    for a, units in ann.items():
        lst = list(units)
        inner_set = getattr(units, "_set", None)
        if inner_set is not None and (len(inner_set) != len(lst) or set(lst) != inner_set):
            problems.append(f"{a}: sorted set's internal set ({len(inner_set)}) and list ({len(lst)}) disagree")
        ks = [unit_key(_ut(u)) for u in lst]
        for i in range(1, len(ks)):
            if not ks[i - 1] < ks[i]:
                problems.append(f"{a}: units not in strict documented order at {i}: {ks[i-1]} !< {ks[i]}")
                break
        for u in lst:
            if u.annotation is not None:
                labels.add(u.annotation)
            if not (u.segment.end - u.segment.start > 0):
                problems.append(f"{a}: unit of non-positive duration {_ut(u)}")
            lo = u.segment.start if lo is None else min(lo, u.segment.start)
            hi = u.segment.end if hi is None else max(hi, u.segment.end)
    cats = set(c._categories)
    if not labels <= cats:
        problems.append(f"labels in use not covered by categories: {sorted(labels - cats)}")
    if lo is not None and not (c.bound_inf <= lo and c.bound_sup >= hi):
        problems.append(f"bounds {(c.bound_inf, c.bound_sup)} do not enclose the units' extent {(lo, hi)}")
    return problems[:6]


_tls = threading.local()


INV = {"stride": 1, "calls": 0}


def install_continuum_invariant(tag="M-INV", on_fail=None, stride=1):
    """icontract class invariant on Continuum.  The condition records and returns True.
    stride > 1: the (O(units)) evaluation is done on one call out of `stride` (hot loops call add/remove thousands
    of times); only real evaluations are counted."""
    INV["stride"] = stride
    import icontract
    from pygamma_agreement import Continuum
    if getattr(Continuum, "_verif_inv_installed", False):
        return

    def continuum_invariant(self):
        if getattr(_tls, "inv_off", False):
            return True
        INV["calls"] += 1
        if INV["stride"] > 1 and INV["calls"] % INV["stride"]:
            return True
        ctx = ctxmod.CTX
        ctx.count(tag)
        problems = continuum_invariant_problems(self)
        if problems:
            if on_fail is not None:
                on_fail(self, problems)
            else:
                ctx.fail("inv:" + _inv_key(problems[0]), {"problems": problems}, monitor=tag)
        return True

    icontract.invariant(continuum_invariant, error=AssertionError)(Continuum)
    Continuum._verif_inv_installed = True


def _inv_key(problem):
    for word, key in (("internal set", "set-list-disagree"), ("strict documented order", "order"),
                      ("not covered by categories", "categories"), ("do not enclose", "bounds"),
                      ("annotators not sorted", "annotators"), ("non-positive", "zero-length")):
        if word in problem:
            return key
    return "other"


@contextlib.contextmanager
def invariant_paused():
    old = getattr(_tls, "inv_off", False)
    _tls.inv_off = True
    try:
        yield
    finally:
        _tls.inv_off = old


# =========================================================================== installable post-conditions
def install_alignment_postconditions(part=True, dis=True, tag_prefix="", keyer=None, dis_via="d"):
    """icontract post-conditions on get_best_alignment / get_best_soft_alignment / get_fast_alignment.
    Every (also internal: windows of the fast alignment) call is checked."""
    import icontract
    from pygamma_agreement import Continuum
    if getattr(Continuum, "_verif_post_installed", False):
        return
    keyer = keyer or (lambda kind, problem: f"{kind}:{problem.split(':')[0][:40]}")

    def make(kind, cover):
        def post(self, dissimilarity, result):
            ctx = ctxmod.CTX
            if part:
                ctx.count(tag_prefix + ("M-COVER" if cover else "M-PART"))
                pr = check_partition(self, result, cover=cover)
                if pr:
                    ctx.fail(f"{kind}:not-a-{'cover' if cover else 'partition'}", {"problems": pr,
                             "continuum": _spec(self)}, monitor="M-COVER" if cover else "M-PART")
            if dis:
                ctx.count(tag_prefix + "M-DIS")
                try:
                    pr, _ = check_disorders(self, result, dissimilarity, via=dis_via)
                except Exception as e:  # e.g. d() cannot evaluate: reported, never raised into the workload
                    pr = [f"reference evaluation failed: {type(e).__name__}: {e}"]
                if pr:
                    ctx.fail(f"{kind}:disorder-mismatch", {"problems": pr, "continuum": _spec(self)}, monitor="M-DIS")
            return True
        post.__name__ = f"post_{kind}"
        return post

    Continuum.get_best_alignment = icontract.ensure(make("best", False), error=AssertionError)(
        Continuum.get_best_alignment)
    Continuum.get_best_soft_alignment = icontract.ensure(make("soft", True), error=AssertionError)(
        Continuum.get_best_soft_alignment)

    def post_fast(self, dissimilarity, window_size, result):
        return make("fast", False)(self, dissimilarity, result)
    Continuum.get_fast_alignment = icontract.ensure(post_fast, error=AssertionError)(Continuum.get_fast_alignment)
    Continuum._verif_post_installed = True


def _spec(c):
    from .cases import spec_of
    try:
        return spec_of(c)
    except Exception:
        return None


# =========================================================================== M-PROG
class Stagnation(Exception):
    pass


def install_progress_monitor(limit=3):
    """Progress of the fast alignment, decided on logical steps: get_first_window is called exactly once per
    iteration on the shrinking working copy; `limit` consecutive calls with no unit removed => Stagnation."""
    from pygamma_agreement import Continuum
    if getattr(Continuum, "_verif_prog_installed", False):
        return
    orig_fast = Continuum.get_fast_alignment
    orig_window = Continuum.get_first_window

    def get_first_window(self, dissimilarity, w=1):
        st = getattr(_tls, "prog", None)
        if st is not None and st["depth"] == 1:
            n = sum(len(us) for us in self._annotations.values())
            ctxmod.CTX.count("M-PROG")
            st["iters"] += 1
            if st["last"] is not None and n >= st["last"]:
                st["stall"] += 1
                if st["stall"] >= limit:
                    raise Stagnation(f"no unit consumed in {limit} consecutive window iterations "
                                     f"({n} units remaining, window size {w})")
            else:
                st["stall"] = 0
            st["last"] = n
        return orig_window(self, dissimilarity, w)

    def get_fast_alignment(self, dissimilarity, window_size):
        outer = getattr(_tls, "prog", None)
        if outer is not None:   # nested call (never happens in the library today): do not track
            outer["depth"] += 1
            try:
                return orig_fast(self, dissimilarity, window_size)
            finally:
                outer["depth"] -= 1
        _tls.prog = {"depth": 1, "last": None, "stall": 0, "iters": 0}
        try:
            return orig_fast(self, dissimilarity, window_size)
        finally:
            ctxmod.CTX.observe("fast_window_iterations", _tls.prog["iters"])
            _tls.prog = None

    Continuum.get_first_window = get_first_window
    Continuum.get_fast_alignment = get_fast_alignment
    Continuum._verif_prog_installed = True


# =========================================================================== M-SOLVER
class SolverSpy:
    """Spy on cvxpy.Problem.solve: records the solver of each MIP; can make CBC fail (fault injection)."""

    def __init__(self):
        import cvxpy
        self.cvxpy = cvxpy
        self.orig = cvxpy.Problem.solve
        self.calls = []
        self.fail_cbc = False
        self.fail_all = False
        self.fail_job = None
        self.job_calls = 0
        self._doomed_thread = None
        self.cbc_calls = 0
        self.installed = False

    def install(self):
        spy = self

        def solve(problem, *args, **kwargs):
            solver = kwargs.get("solver", args[0] if args else None)
            spy.calls.append(str(solver))
            ctxmod.CTX.count("M-SOLVER")
            if spy.fail_job is not None:
                # exactly one alignment job (the k-th one to ask for CBC) finds no usable solver at all: CBC fails for it and
                # so does the GLPK call that the same thread makes next
                import threading as _th
                me = _th.get_ident()
                if str(solver) == "CBC":
                    spy.job_calls += 1
                    if spy.job_calls == spy.fail_job:
                        spy._doomed_thread = me
                        raise spy.cvxpy.SolverError("injected solver failure (vframework fault injection: one job, CBC)")
                elif spy._doomed_thread == me:
                    spy._doomed_thread = None
                    raise spy.cvxpy.SolverError("injected solver failure (vframework fault injection: one job, GLPK)")
            if spy.fail_all:
                # no solver is usable at all: whatever the library then does, it must not hand out a wrong answer
                raise spy.cvxpy.SolverError("injected solver failure (vframework fault injection: every solver)")
            if spy.fail_cbc and str(solver) == "CBC":
                # True: every CBC call fails; an integer k > 1: every k-th CBC call fails (an intermittent fault)
                spy.cbc_calls += 1
                if spy.fail_cbc is True or spy.cbc_calls % int(spy.fail_cbc) == 0:
                    raise spy.cvxpy.SolverError("injected CBC failure (vframework fault injection)")
            return spy.orig(problem, *args, **kwargs)
        self.cvxpy.Problem.solve = solve
        self.installed = True
        return self

    def take(self):
        c, self.calls = self.calls, []
        return c


@contextlib.contextmanager
def cylp_masked():
    """Make `import cylp` raise ImportError (the library then falls back to GLPK)."""
    import sys
    saved = {k: v for k, v in sys.modules.items() if k == "cylp" or k.startswith("cylp.")}
    for k in saved:
        del sys.modules[k]
    sys.modules["cylp"] = None
    try:
        yield
    finally:
        del sys.modules["cylp"]
        sys.modules.update(saved)


# =========================================================================== M-RNG
class RngSpy:
    """Spies on numpy's global RNG entry points used by the library: thread, arguments and result of each draw."""
    NAMES = ["seed", "normal", "uniform", "choice", "random", "randint"]

    def __init__(self):
        import numpy as np
        self.np = np
        self.orig = {n: getattr(np.random, n) for n in self.NAMES}
        self.log = []
        self.enabled = False
        self.limit = None   # logical-step budget (draws) per recording window
        self.installed = False

    def install(self):
        spy = self

        def make(name):
            orig = spy.orig[name]

            def f(*a, **k):
                r = orig(*a, **k)
                if spy.enabled:
                    spy.log.append((name, threading.get_ident(), a, k, r))
                    if spy.limit is not None and len(spy.log) > spy.limit:
                        spy.enabled = False
                        raise DrawBudgetExceeded(f"more than {spy.limit} random draws in one operation")
                return r
            f.__name__ = name
            return f
        for n in self.NAMES:
            setattr(self.np.random, n, make(n))
        self.installed = True
        return self

    @contextlib.contextmanager
    def recording(self, limit=None):
        self.log = []
        self.limit = limit
        self.enabled = True
        try:
            yield self.log
        finally:
            self.enabled = False
            self.limit = None


class DrawBudgetExceeded(Exception):
    pass


# =========================================================================== M-PURE
def snapshot_continuum(c):
    return {
        "annotators": list(c._annotations.keys()),
        "units": {a: [_ut(u) for u in us] for a, us in c._annotations.items()},
        "categories": list(c._categories),
        "bounds": (c.bound_inf, c.bound_sup),
    }


def snapshot_dissim(d, depth=0):
    import numpy as np
    snap = {"type": type(d).__name__, "delta": float(d.delta_empty),
            "categories": None if d.categories is None else list(d.categories),
            "d_mat_id": id(d.d_mat)}
    for name in ("alpha", "beta"):
        if hasattr(d, name):
            snap[name] = float(getattr(d, name))
    m = getattr(d, "_matrix", None)
    if m is not None:
        snap["matrix"] = np.asarray(m).tobytes()
    if depth < 2:
        for name in ("positional_dissim", "categorical_dissim"):
            sub = getattr(d, name, None)
            if sub is not None:
                snap[name] = snapshot_dissim(sub, depth + 1)
                snap[name + "_id"] = id(sub)
    return snap


def diff_snap(a, b, prefix=""):
    out = []
    if isinstance(a, dict) and isinstance(b, dict):
        for k in sorted(set(a) | set(b)):
            if k not in a or k not in b:
                out.append(f"{prefix}{k}: present on one side only")
            else:
                out.extend(diff_snap(a[k], b[k], f"{prefix}{k}."))
    elif a != b:
        out.append(f"{prefix[:-1]}: {str(a)[:120]} -> {str(b)[:120]}")
    return out
