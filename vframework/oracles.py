"""Independent reference implementations used as oracles.

None of these call the code under test except, where DESIGN.md says so, the dissimilarity's own unit-to-unit
functions (`d_mat` on arrays we build ourselves, or `d()`), so that a formula error is C04's business and
affects both sides equally."""
import itertools
import math

import numpy as np

REL_TOL = 2e-5


def close(a, b, rel=REL_TOL, abs_=1e-7):
    a, b = float(a), float(b)
    if math.isnan(a) or math.isnan(b):
        return False
    if a == b:
        return True
    return abs(a - b) <= max(abs_, rel * max(1.0, abs(a), abs(b)))


def close_at_scale(a, b, delta, rel=REL_TOL):
    """`close` for disorders that are proportional to a small delta_empty: compared in units of delta_empty, so that the
    floor of the tolerance (relative to 1) does not swallow values of the order of 1e-5."""
    s = float(delta)
    s = s if 0 < s < 1 else 1.0
    return close(float(a) / s, float(b) / s, rel=rel)


# ------------------------------------------------------------------ arrays and pair costs from the compiled form
def category_list(cspec, dissim):
    cats = getattr(dissim, "categories", None)
    if cats is None:
        cats = sorted({u[2] for us in cspec["ann"].values() for u in us if u[2] is not None})
    return list(cats)


def unit_arrays(cspec, dissim):
    cats = category_list(cspec, dissim)
    index = {c: i for i, c in enumerate(cats)}
    arrays = []
    for a in sorted(cspec["ann"].keys()):
        us = sorted(cspec["ann"][a], key=lambda u: (u[0], u[1], u[2] is not None, u[2] or ""))
        arr = np.empty((len(us), 4), dtype=np.float32)
        for i, (s, e, lab) in enumerate(us):
            # the library measures the duration as a double and rounds it once: do the same
            arr[i] = (np.float32(s), np.float32(e), np.float32(e - s), np.float32(index[lab] if lab is not None else len(cats)))
        arrays.append(arr)
    return arrays


def pair_matrices(arrays, d_mat, delta):
    """M[(a, b)][i, j] = compiled dissimilarity between unit i of annotator a and unit j of annotator b (a < b),
    with one extra row/column holding delta_empty for the empty unit."""
    n = len(arrays)
    mats = {}
    delta = float(np.float32(delta))
    for a in range(n):
        for b in range(a + 1, n):
            m = np.full((len(arrays[a]) + 1, len(arrays[b]) + 1), delta, dtype=np.float64)
            for i in range(len(arrays[a])):
                for j in range(len(arrays[b])):
                    m[i, j] = float(d_mat(arrays[a][i], arrays[b][j]))
            mats[(a, b)] = m
    return mats


def tuple_cost_tensor(mats, sizes):
    """Disorder of every index tuple (index == size means the empty unit) as an n-dimensional array."""
    n = len(sizes)
    shape = tuple(s + 1 for s in sizes)
    total = np.zeros(shape, dtype=np.float64)
    for (a, b), m in mats.items():
        sh = [1] * n
        sh[a], sh[b] = m.shape[0], m.shape[1]
        total = total + m.reshape(sh)
    c2n = n * (n - 1) // 2
    return total / c2n


def all_candidates(tensor, sizes):
    """All index tuples except the all-empty one -> (tuples array [m, n], costs [m])."""
    n = len(sizes)
    idx = np.indices(tensor.shape).reshape(n, -1).T
    costs = tensor.reshape(-1)
    keep = ~np.all(idx == np.array(sizes)[None, :], axis=1)
    return idx[keep], costs[keep]


def candidate_masks(tuples, sizes):
    offsets = np.concatenate([[0], np.cumsum(sizes)[:-1]]).astype(np.int64)
    masks = np.zeros(len(tuples), dtype=np.int64)
    for a, size in enumerate(sizes):
        real = tuples[:, a] != size
        masks[real] |= (np.int64(1) << (offsets[a] + tuples[real, a]).astype(np.int64))
    return masks


_dp_funcs = {}


def _get_dp():
    if "f" in _dp_funcs:
        return _dp_funcs["f"]
    import numba as nb

    @nb.njit(cache=False)
    def dp(masks, costs, nunits, cover):
        full = (1 << nunits) - 1
        best = np.full(full + 1, np.inf)
        best[0] = 0.0
        for mask in range(1, full + 1):
            low = mask & (-mask)
            b = np.inf
            for k in range(len(masks)):
                cm = masks[k]
                if cm & low:
                    if cover:
                        v = best[mask & ~cm] + costs[k]
                        if v < b:
                            b = v
                    elif (cm & ~mask) == 0:
                        v = best[mask ^ cm] + costs[k]
                        if v < b:
                            b = v
            best[mask] = b
        return best[full]

    _dp_funcs["f"] = dp
    return dp


def min_sum_dp(masks, costs, nunits, cover=False):
    """Exact minimum total cost of a partition (cover=False) or cover (cover=True) of all units by candidates."""
    assert nunits <= 20
    dp = _get_dp()
    return float(dp(masks.astype(np.int64), costs.astype(np.float64), int(nunits), bool(cover)))


def incidence_from_tuples(tuples, sizes):
    """units x candidates incidence matrix straight from the index tuples (no bit masks: any number of units)."""
    from scipy.sparse import csr_matrix
    offsets = np.concatenate([[0], np.cumsum(sizes)[:-1]]).astype(np.int64)
    rows, cols = [], []
    for a, size in enumerate(sizes):
        real = np.nonzero(tuples[:, a] != size)[0]
        rows.append(offsets[a] + tuples[real, a])
        cols.append(real)
    rows, cols = np.concatenate(rows), np.concatenate(cols)
    return csr_matrix((np.ones(len(rows)), (rows, cols)), shape=(int(sum(sizes)), len(tuples)))


def min_sum_milp(masks, costs, nunits, cover=False, time_limit=60, incidence=None):
    """Same minimum through scipy's HiGHS MILP (not one of the library's two back-ends)."""
    from scipy.optimize import milp, LinearConstraint, Bounds
    from scipy.sparse import csr_matrix
    if incidence is not None:
        A = incidence
        single_cols = np.asarray(A.sum(axis=0)).ravel() == 1
    else:
        rows, cols = [], []
        for k, m in enumerate(masks):
            m = int(m)
            assert m >= 0, "bit masks overflowed: more than 62 units need the incidence matrix"
            u = 0
            while m:
                if m & 1:
                    rows.append(u)
                    cols.append(k)
                m >>= 1
                u += 1
        A = csr_matrix((np.ones(len(rows)), (rows, cols)), shape=(nunits, len(masks)))
        mm = np.asarray(masks, dtype=np.int64)
        single_cols = (mm & (mm - 1)) == 0
    con = LinearConstraint(A, lb=np.ones(nunits), ub=(np.full(nunits, np.inf) if cover else np.ones(nunits)))
    # costs are handed over relative to the largest one (solver tolerances are absolute; delta_empty may be 1e-6)
    # (relative to the mean cost of a lone unit, which is of the order of delta_empty; a candidate dearer than all lone
    # units together is never part of an optimum, so the huge costs of far-apart units are clipped: they would otherwise
    # dwarf the relevant ones)
    c = np.asarray(costs, dtype=np.float64)
    single = single_cols
    total_single = float(c[single].sum()) if single.any() else 0.0
    scale = total_single / max(1, int(single.sum())) if total_single > 0 else 1.0
    cc = np.minimum(c, 2.0 * total_single) if total_single > 0 else c
    res = milp(c=cc / scale, constraints=[con], integrality=np.ones(len(c)),
               bounds=Bounds(0, 1), options={"time_limit": time_limit, "mip_rel_gap": 0.0})   # default gap is 1e-4: not an exact oracle
    if not res.success:
        return None
    x = np.round(res.x)
    return float(np.dot(c, x))


def min_sum_hungarian(mats, sizes):
    """Two annotators only: exact optimum by the assignment algorithm (a third, unrelated method)."""
    from scipy.optimize import linear_sum_assignment
    assert len(sizes) == 2
    s1, s2 = sizes
    m = mats[(0, 1)]
    n = s1 + s2
    big = np.zeros((n, n))
    # rows: units of A then s2 dummy rows; cols: units of B then s1 dummy cols
    big[:s1, :s2] = m[:s1, :s2]
    big[:s1, s2:] = m[:s1, s2][:, None]          # A unit with the empty unit
    big[s1:, :s2] = m[s1, :s2][None, :]          # B unit with the empty unit
    big[s1:, s2:] = 0.0
    r, c = linear_sum_assignment(big)
    return float(big[r, c].sum())


def optimum(cspec, dissim, cover=False, want="auto"):
    """Minimum alignment disorder (partition or cover) by the independent oracles.
    Returns dict(value=..., methods={name: value}, n_candidates=...)."""
    arrays = unit_arrays(cspec, dissim)
    sizes = [len(a) for a in arrays]
    nunits = int(sum(sizes))
    mats = pair_matrices(arrays, dissim.d_mat, dissim.delta_empty)
    tensor = tuple_cost_tensor(mats, sizes)
    tuples, costs = all_candidates(tensor, sizes)
    masks = candidate_masks(tuples, sizes) if nunits <= 60 else None
    avg = nunits / len(sizes)
    methods = {}
    if nunits <= 14 or (want == "dp" and nunits <= 18):
        methods["dp"] = min_sum_dp(masks, costs, nunits, cover) / avg
    if want in ("both", "milp") or nunits > 14:
        v = min_sum_milp(masks, costs, nunits, cover, incidence=None if masks is not None else incidence_from_tuples(tuples, sizes))
        if v is not None:
            methods["milp"] = v / avg
    if len(sizes) == 2 and not cover:
        methods["hungarian"] = min_sum_hungarian(mats, sizes) * 1.0 / avg
    vals = list(methods.values())
    agree = all(close(v, vals[0], rel=1e-6, abs_=1e-9) for v in vals) if vals else False
    return {"value": (min(vals) if vals else None), "methods": methods, "agree": agree,
            "n_candidates": int(len(costs)), "sizes": sizes}


# ------------------------------------------------------------------ definitions (float64) from unit objects
def ref_unitary_disorder(units, d_func, delta):
    """Mean over the n(n-1)/2 annotator pairs; delta_empty whenever either unit is empty."""
    n = len(units)
    total = 0.0
    for i in range(n):
        for j in range(i):
            if units[i] is None or units[j] is None:
                total += float(delta)
            else:
                total += float(d_func(units[i], units[j]))
    return total / (n * (n - 1) / 2)


def ref_alignment_disorder(unitary_units, d_func, delta, avg_units):
    return sum(ref_unitary_disorder(us, d_func, delta) for us in unitary_units) / avg_units


def levenshtein(a, b):
    prev = list(range(len(b) + 1))
    for i, ca in enumerate(a, 1):
        cur = [i]
        for j, cb in enumerate(b, 1):
            cur.append(min(prev[j] + 1, cur[j - 1] + 1, prev[j - 1] + (ca != cb)))
        prev = cur
    return prev[-1]
