"""vcheck <Cxx> [--tier quick|thorough] [--replay path]

Shards the property's workload over worker subprocesses (each pays the ~10 s numba import once), watches
them, aggregates what the monitors observed, classifies failures against known_findings.json, prints the
verdict lines, writes the evidence file (schema-validated) and replay files.

Exit codes: 0 held on everything explored; 1 violation (VIOLATION line printed); 2 inconclusive."""
import argparse
import collections
import importlib
import json
import os
import shutil
import signal
import subprocess
import sys
import time

VERIF = os.path.dirname(os.path.dirname(os.path.abspath(__file__)))
KNOWN = os.path.join(VERIF, "known_findings.json")
FATAL_SIGNALS = {signal.SIGSEGV: "SIGSEGV", signal.SIGBUS: "SIGBUS", signal.SIGABRT: "SIGABRT",
                 signal.SIGFPE: "SIGFPE", signal.SIGILL: "SIGILL"}


def load_known(prop):
    if not os.path.exists(KNOWN):
        return {}
    with open(KNOWN) as f:
        data = json.load(f)
    return {e["key"]: e for e in data.get("findings", []) if e["property"] == prop and e.get("status") == "open"}


def main(argv=None):
    ap = argparse.ArgumentParser()
    ap.add_argument("prop")
    ap.add_argument("--tier", default=os.environ.get("VERIF_TIER", "quick"), choices=["quick", "thorough"])
    ap.add_argument("--replay", default=None)
    ap.add_argument("--keep", action="store_true", help="keep the scratch directory")
    args = ap.parse_args(argv)
    prop, tier = args.prop, args.tier
    seed = int(os.environ.get("VERIF_SEED", "0") or 0)
    t0 = time.time()

    sys.path.insert(0, VERIF)
    from vframework import boot
    deps = boot.ensure_deps()
    mod = importlib.import_module(f"vframework.props.{prop}")

    if args.replay:
        plan = {"shards": [{"env": {}, "params": {}}], "timeout": 1800}
    else:
        plan = mod.plan(tier, seed)
    shards = plan["shards"]
    rundir = os.path.join(VERIF, ".scratch", f"run-{prop}-{tier}-{os.getpid()}")
    shutil.rmtree(rundir, ignore_errors=True)
    os.makedirs(rundir)
    with open(os.path.join(rundir, "owner.pid"), "w") as f:
        f.write(str(os.getpid()))

    procs = []
    for i, sh in enumerate(shards):
        outdir = os.path.join(rundir, f"shard-{i}")
        os.makedirs(outdir)
        env = dict(os.environ)
        env.update({"PYTHONHASHSEED": "0", "PYTHONPATH": VERIF + os.pathsep + env.get("PYTHONPATH", ""),
                    "PYTHONWARNINGS": "ignore::SyntaxWarning", "NUMBA_DISABLE_PERFORMANCE_WARNINGS": "1",
                    "PYTHONDONTWRITEBYTECODE": env.get("PYTHONDONTWRITEBYTECODE", "")})
        env.update({k: str(v) for k, v in sh.get("env", {}).items()})
        env["VERIF_PARAMS"] = json.dumps(sh.get("params", {}))
        cmd = [sys.executable] + list(sh.get("pyflags", [])) + ["-m", "vframework.worker", prop, tier, str(seed),
                                                              str(i), str(len(shards)), outdir]
        if args.replay:
            cmd += ["--replay", os.path.abspath(args.replay)]
        errf = open(os.path.join(outdir, "stderr.log"), "w")
        p = subprocess.Popen(cmd, cwd=VERIF, env=env, stdout=errf, stderr=errf, stdin=subprocess.DEVNULL)
        procs.append((i, p, outdir, errf))

    deadline = t0 + plan.get("timeout", 1800)
    shard_status = {}
    pending = list(procs)
    while pending:
        for item in list(pending):
            i, p, outdir, errf = item
            rc = p.poll()
            if rc is not None:
                shard_status[i] = rc
                pending.remove(item)
                errf.close()
        if pending and time.time() > deadline:
            for i, p, outdir, errf in pending:
                # ask faulthandler for a traceback of where it hangs, then kill
                try:
                    p.send_signal(signal.SIGABRT)
                    time.sleep(0.5)
                    p.kill()
                except Exception:
                    pass
                p.wait()
                shard_status[i] = "timeout"
                errf.close()
            pending = []
        if pending:
            time.sleep(0.2)

    # ---------------- aggregate
    evaluations = 0
    hashes = set()
    partitioned_distinct = 0   # cases owned by exactly one shard (hash-partitioned enumerations): counts add up
    monitors = collections.Counter()
    observed = collections.defaultdict(collections.Counter)
    samples = []
    fail_counts = collections.Counter()
    fails = []
    notes = {}
    problems = []   # reasons for an inconclusive verdict
    crash_fails = []
    shard_notes = {}
    for i, p, outdir, _ in procs:
        st = shard_status[i]
        spath = os.path.join(outdir, "summary.json")
        summary = None
        if os.path.exists(spath):
            try:
                with open(spath) as f:
                    summary = json.load(f)
            except Exception:
                summary = None
        if summary:
            evaluations += summary["evaluations"]
            hashes.update(summary["hashes"])
            partitioned_distinct += summary.get("partitioned_distinct", 0)
            monitors.update(summary["monitors"])
            for k, v in summary["observed"].items():
                observed[k].update(v)
            for s in summary["samples"]:
                if len(samples) < 8:
                    samples.append(s)
            fail_counts.update(summary["fail_counts"])
            for k, v in summary.get("notes", {}).items():
                notes.setdefault(k, v)
            shard_notes[i] = summary.get("notes", {})
            for r in summary.get("inconclusive", []):
                problems.append(f"shard {i}: {r}")
        fpath = os.path.join(outdir, "fails.jsonl")
        if os.path.exists(fpath):
            with open(fpath) as f:
                for line in f:
                    line = line.strip()
                    if line:
                        try:
                            fails.append(json.loads(line))
                        except Exception:
                            pass
        if st == "timeout":
            problems.append(f"shard {i}: watchdog fired after {plan.get('timeout')} s (see {outdir})")
        elif isinstance(st, int) and st < 0 and signal.Signals(-st) in FATAL_SIGNALS:
            name = FATAL_SIGNALS[signal.Signals(-st)]
            cur = None
            try:
                with open(os.path.join(outdir, "current.json")) as f:
                    cur = json.load(f)
            except Exception:
                pass
            crash_fails.append({"key": f"crash:{name}", "detail": {"signal": name, "shard": i,
                                "fault_log": _tail(os.path.join(outdir, "fault.log"))},
                                "monitor": "faulthandler", "case": cur, "shard": i, "seed": seed, "tier": tier})
        elif st != 0 or summary is None or summary.get("status") != "done":
            err = _tail(os.path.join(outdir, "error.txt")) or _tail(os.path.join(outdir, "stderr.log"))
            problems.append(f"shard {i}: worker ended with status {st}: {err[-600:]}")
    for cf in crash_fails:
        fails.append(cf)
        fail_counts[cf["key"]] += 1
    if hasattr(mod, "cross_shard") and not args.replay:
        # relations between what different worker processes observed (e.g. same scenario under other hash seeds)
        for rec in mod.cross_shard(shard_notes, [sh.get("env", {}) for sh in shards], monitors, observed):
            rec.setdefault("shard", -1)
            rec.setdefault("seed", seed)
            rec.setdefault("tier", tier)
            fails.append(rec)
            fail_counts[rec["key"]] += 1

    # ---------------- classify
    known = load_known(prop)
    kf_hits = collections.Counter()
    violations = collections.OrderedDict()
    for rec in fails:
        key = rec["key"]
        if key in known:
            kf_hits[key] = fail_counts.get(key, 1)
        else:
            violations.setdefault(key, rec)
    for key in fail_counts:
        if key in known:
            kf_hits[key] = fail_counts[key]

    os.makedirs(os.path.join(VERIF, "replays"), exist_ok=True)
    os.makedirs(os.path.join(VERIF, "evidence"), exist_ok=True)
    for key in kf_hits:
        print(f"KNOWN-FINDING: property={prop} {known[key].get('mechanism', key)} "
              f"[key={key}; {kf_hits[key]} occurrence(s) in this run]")
    vio_lines = []
    for n, (key, rec) in enumerate(violations.items()):
        safe = "".join(ch if ch.isalnum() or ch in "-_." else "_" for ch in key)[:60]
        rpath = os.path.join(VERIF, "replays", f"{prop}-{tier}-s{seed}-{safe}.json")
        with open(rpath, "w") as f:
            json.dump({"property": prop, "key": key, "occurrences": fail_counts.get(key, 1), **rec}, f, indent=1)
        vio_lines.append((key, rpath, rec))

    deciding = list(getattr(mod, "DECIDING", []))
    if not args.replay:
        for m in deciding:
            if monitors.get(m, 0) == 0:
                problems.append(f"deciding monitor {m} recorded zero evaluations")
        if len(hashes) + partitioned_distinct < 2:
            problems.append(f"only {len(hashes) + partitioned_distinct} distinct non-trivial case(s) were executed")

    wall = time.time() - t0
    if not args.replay:
        coverage = {
            "evaluations": evaluations,
            "distinct_nontrivial": len(hashes) + partitioned_distinct,
            "rule": getattr(mod, "RULE", ""),
            "samples": samples or [{"note": "no sample recorded"}],
            "monitor_evaluations": dict(monitors),
            "observed": {k: _top(v) for k, v in observed.items()},
            "shards": len(shards),
            "shard_env": [sh.get("env", {}) for sh in shards],
            "monitor_failures_by_key": dict(fail_counts),
            "known_finding_hits": dict(kf_hits),
            "inconclusive_reasons": problems,
            "notes": notes,
            "exhaustive": bool(getattr(mod, "EXHAUSTIVE", False)),
            "verdict": "violated" if vio_lines else ("inconclusive" if problems else "held"),
        }
        evidence = {
            "property_id": prop, "tier": tier, "seed": seed, "level": getattr(mod, "LEVEL", "exploration"),
            "coverage": coverage, "assumptions": list(getattr(mod, "ASSUMPTIONS", [])),
            "wall_s": round(wall, 2), "violations": len(vio_lines),
        }
        # evidence describes /repo; a run pointed at another tree (self-test on a scratch copy) keeps its file out of the way
        other_tree = os.path.realpath(os.environ.get("VERIF_REPO", "/repo")) != os.path.realpath("/repo")
        edir = os.path.join(VERIF, ".scratch", "evidence-of-other-trees") if other_tree else os.path.join(VERIF, "evidence")
        os.makedirs(edir, exist_ok=True)
        epath = os.path.join(edir, f"{prop}.json")
        tmp = f"{epath}.{os.getpid()}.tmp"          # written aside and moved into place: two runs never interleave in one file
        with open(tmp, "w") as f:
            json.dump(evidence, f, indent=1)
        os.replace(tmp, epath)
        try:
            import jsonschema
            with open(os.path.join(VERIF, "vframework", "schemas", "EVIDENCE.schema.json")) as f:
                schema = json.load(f)
            jsonschema.validate(evidence, schema)
        except Exception as e:  # an evidence file that does not validate is no evidence
            problems.append(f"evidence file does not validate: {str(e)[:300]}")

    for key, rpath, rec in vio_lines:
        print(f"VIOLATION property={prop} replay={rpath}")
        print(f"  key={key} monitor={rec.get('monitor')} occurrences={fail_counts.get(key, 1)}")
        print(f"  detail={json.dumps(rec.get('detail'))[:700]}")
    print(f"[{prop} {tier} seed={seed}] evaluations={evaluations} distinct={len(hashes) + partitioned_distinct} "
          f"monitors={dict(monitors)} wall={wall:.1f}s")
    keep = args.keep or bool(problems) or bool(vio_lines)
    if not keep:
        shutil.rmtree(rundir, ignore_errors=True)
    else:
        _prune_scratch(rundir)
    if vio_lines:
        return 1
    if problems:
        for pr in problems:
            print(f"INCONCLUSIVE property={prop} reason={pr}")
        return 2
    if args.replay:
        print(f"replay of {args.replay}: no monitor fired")
    return 0


def _tail(path, n=1500):
    try:
        with open(path) as f:
            return f.read()[-n:]
    except Exception:
        return ""


def _top(counter, k=40):
    items = sorted(counter.items(), key=lambda kv: -kv[1])
    out = dict(items[:k])
    if len(items) > k:
        out["__other_values__"] = len(items) - k
    out_total = sum(counter.values())
    return {"distinct": len(items), "total": out_total, "top": out}


def _prune_scratch(keep_dir):
    """Keep at most the 5 most recent kept run directories."""
    root = os.path.dirname(keep_dir)
    try:
        runs = sorted((os.path.join(root, d) for d in os.listdir(root)), key=os.path.getmtime)
        dead = [d for d in runs if d != keep_dir and not _owner_alive(d)]
        for d in dead[:-5]:
            shutil.rmtree(d, ignore_errors=True)
    except Exception:
        pass


def _owner_alive(rundir):
    try:
        with open(os.path.join(rundir, "owner.pid")) as f:
            pid = int(f.read().strip())
        os.kill(pid, 0)
        return True
    except (OSError, ValueError):
        return False


if __name__ == "__main__":
    try:
        code = main()
    except SystemExit:
        raise
    except BaseException as e:   # a harness failure is never a verdict about the repository
        import traceback
        traceback.print_exc()
        print(f"INCONCLUSIVE property={sys.argv[1] if len(sys.argv) > 1 else '?'} reason=orchestrator error: {type(e).__name__}: {e}")
        code = 2
    sys.exit(code)
