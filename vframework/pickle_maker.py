"""Builds continua and alignments in ANOTHER process (another PYTHONHASHSEED) and pickles them: objects that travel
between processes (a disk cache, spawn workers) must behave like objects built here.

usage: python -m vframework.pickle_maker <in.json> <out.pkl>     (in.json: list of {"continuum": spec, "alignment": aspec})"""
import json
import os
import pickle
import sys


def main():
    repo = os.path.realpath(os.environ.get("VERIF_REPO", "/repo"))
    sys.path.insert(0, repo)
    import pygamma_agreement
    assert os.path.realpath(pygamma_agreement.__file__).startswith(repo), pygamma_agreement.__file__
    from vframework import cases
    items = json.load(open(sys.argv[1]))
    out = []
    for it in items:
        c = cases.build_continuum(it["continuum"])
        # ordinary use before saving: units get hashed, compared, put in sets
        _ = {u for _, u in c}
        al = cases.build_alignment(it["continuum"], it["alignment"], continuum=None)
        so = cases.build_alignment(it["continuum"], it["alignment"], continuum=None, soft=True)
        _ = {u for ua in al.unitary_alignments for _, u in ua.n_tuple if u is not None}
        out.append((c, al, so))
    with open(sys.argv[2], "wb") as f:
        pickle.dump({"hash_seed": os.environ.get("PYTHONHASHSEED"), "probe": hash("probe-string") & 0xffff, "items": out}, f)


if __name__ == "__main__":
    main()
