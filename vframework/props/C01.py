"""C01 - the best alignment is a partition of the continuum's units, and the computation always returns."""
from .. import cases, monitors

TITLE = "Best alignment is a partition of the continuum's units"
DECIDING = ["M-PART", "M-SOLVER", "M-PART-SESSION", "M-PART-CONCURRENT"]
LEVEL = "exploration"
RULE = ("seeded random continua (2-5 annotators, 0..k units each, ten segment families incl. identical units across "
        "annotators, nested, long-overlapping, touching, negative times; labelled, unlabelled and mixed) x pooled "
        "dissimilarities of every built-in class and parameter value x both MIP back-ends; 12 % of the cases are editing "
        "continua with > 100 000 candidate tuples, two-annotator continua whose candidate table is filled exactly to the brim (10 000 / 15 000 mutually alignable tuples) before isolated units add indispensable singletons, annotator names whose alphabetical order differs from numeric / "
        "case-insensitive / insertion order, and sessions (align, then add_annotator / merge of a unit-less annotator / add / remove / reset_bounds, align again "
        "on the same continuum and dissimilarity objects, 2-6 edits), plus a block in which one continuum object is aligned by 8 user threads at once with different dissimilarities; a case is non-trivial when "
        "the continuum has >= 2 units in total; distinct = distinct (continuum, dissimilarity, back-end) by SHA-1 of the "
        "canonical case")
ASSUMPTIONS = [
    "a unit is identified by (annotator, start, end, label)",
    "label-matrix dissimilarities (precomputed, Levenshtein, ordinal, numerical) have no defined value for a missing "
    "label, so unlabelled units are paired only with positional, absolute and combined-over-absolute dissimilarities",
    "'always returns' is observed as: no exception and no fatal signal; a wall-clock watchdog firing is reported as "
    "inconclusive, never as a violation",
    "half of the workers run the numba kernels with NUMBA_BOUNDSCHECK=1",
]

MAX_UNITS = {2: 9, 3: 6, 4: 5, 5: 4}


def plan(tier, seed):
    n = 4 if tier == "quick" else 16
    shards = []
    for i in range(n):
        shards.append({"env": {"NUMBA_BOUNDSCHECK": "1" if i % 2 else "0"},
                       "params": {"time_budget": 60 if tier == "quick" else 600}})
    if tier == "thorough":   # the repository's own suite as extra workload for M-PART / M-COVER
        shards.append({"env": {}, "params": {"suite": "part,prog"}})
    return {"shards": shards, "timeout": 420 if tier == "quick" else 3000}


_state = {}


def _setup(ctx):
    if "spy" not in _state:
        _state["spy"] = monitors.SolverSpy().install()
        _state["pool"] = cases.DissimPool()
    return _state["spy"], _state["pool"]


def gen_case(ctx, dspecs):
    rng = ctx.rng
    dspec = rng.choice(dspecs)
    labels = cases.dissim_labels(dspec)
    n = rng.randint(2, 5)
    p_none = 0.0
    if labels is None and rng.random() < 0.45:
        p_none = rng.choice([0.3, 1.0])
    cspec = cases.gen_continuum(rng, n_annot=n,
                                max_units=MAX_UNITS[n] if rng.random() < 0.6 else rng.randint(1, MAX_UNITS[n]),
                                labels=labels or cases.LABELS_SMALL, p_none=p_none, min_total=1,
                                names=cases.pick_names(rng, n))
    backend = rng.choice(["cbc", "glpk"]) if rng.random() > 0.04 else "allfail"
    return {"continuum": cspec, "dissim": dspec, "backend": backend}


def check_session(ctx, case):
    """One continuum object and one dissimilarity object: align, edit, align again ... each result is checked against
    the content the continuum has at that moment."""
    from . import _align_common as ac
    spy, pool = _setup(ctx)
    dissim = pool.get(case["dissim"])
    continuum = cases.build_continuum(case["continuum"])
    for step, op in enumerate([None] + case["session"]):
        try:
            if op is not None:
                ac.apply_edit(continuum, op)
            if not continuum or len(continuum.annotators) < 2:
                continue
            alignment = continuum.get_best_alignment(dissim)
        except BaseException as e:
            ctx.count("M-RETURN")
            ctx.fail_exc(f"session:raises:{type(e).__name__}", e, monitor="M-RETURN")
            return
        ctx.count("M-RETURN")
        ctx.count("M-PART")
        ctx.count("M-PART-SESSION")
        problems = monitors.check_partition(continuum, alignment)
        if problems:
            ctx.fail("session:not-a-partition-after-edit", {"problems": problems, "step": step, "after": op,
                                                            "content_now": cases.spec_of(continuum)}, monitor="M-PART")
            return


def check_case(ctx, case):
    if "concurrent" in case:
        from . import _align_common as ac
        return ac.check_concurrent_case(ctx, case, "M-PART-CONCURRENT")
    if "session" in case:
        return check_session(ctx, case)
    spy, pool = _setup(ctx)
    cspec, dspec = case["continuum"], case["dissim"]
    try:
        dissim = pool.get(dspec)
        continuum = cases.build_continuum(cspec)
    except Exception as e:
        ctx.fail_exc("setup-raises:" + type(e).__name__, e, monitor="harness")
        return
    spy.take()
    try:
        if case["backend"] == "glpk":
            with monitors.cylp_masked():
                alignment = continuum.get_best_alignment(dissim)
        elif case["backend"] == "allfail":
            # every solver call raises SolverError: "always returns" presupposes a usable solver - a refusal is accepted here,
            # an alignment that is returned nevertheless is judged like any other
            spy.fail_all = True
            try:
                alignment = continuum.get_best_alignment(dissim)
            except Exception as e0:
                ctx.observe("no_solver_usable", "refused:" + type(e0).__name__)
                return
            finally:
                spy.fail_all = False
        else:
            alignment = continuum.get_best_alignment(dissim)
    except BaseException as e:
        ctx.count("M-RETURN")
        unl = any(u[2] is None for us in cspec["ann"].values() for u in us)
        ctx.fail_exc(f"raises:{type(e).__name__}:{'unlabelled' if unl else 'labelled'}", e, monitor="M-RETURN")
        return
    ctx.count("M-RETURN")
    solvers = spy.take()
    ctx.observe("solver", ",".join(solvers))
    expected = "CBC" if case["backend"] == "cbc" else "GLPK_MI"
    if not solvers or solvers[-1] != expected:
        ctx.observe("solver_unexpected", f"{case['backend']}->{solvers}")
    ctx.count("M-PART")
    problems = monitors.check_partition(continuum, alignment)
    if problems:
        ctx.fail("not-a-partition", {"problems": problems, "solvers": solvers}, monitor="M-PART")
    ctx.observe("unitary_alignments", len(alignment.unitary_alignments))


def run(ctx):
    _setup(ctx)
    if ctx.params.get("suite"):
        from ..suite import run_suite_under_monitors
        run_suite_under_monitors(ctx, ctx.params["suite"])
        return
    n_pool = ctx.scale(12, 30)
    dspecs = cases.gen_pool_specs(ctx.rng, n_pool)
    # make sure the label-free classes (the only ones that accept unlabelled units) are always in the pool
    dspecs += [{"kind": "positional", "delta": 1.0}, {"kind": "absolute", "delta": 0.5},
               {"kind": "combined", "alpha": 1.0, "beta": 1.0, "delta": 1.0, "pos": None, "cat": None}]
    # a few editing sessions first, whatever the time budget (the session monitor is a deciding one)
    from . import _align_common as ac0
    for _ in range(3):
        cs0 = cases.gen_continuum(ctx.rng, n_annot=3, max_units=3, allow_empty=False, labels=cases.LABELS_SMALL)
        case = {"continuum": cs0, "dissim": {"kind": "positional", "delta": 1.0},
                "session": ac0.gen_edit_ops(ctx.rng, cs0, cases.LABELS_SMALL, 4)}
        ctx.begin_case(case)
        ctx.observe("backend", "session")
        check_case(ctx, case)
    # one continuum object aligned by several user threads at once (different dissimilarities)
    for _ in range(ctx.scale(4, 60)):
        case = ac0.gen_concurrent_case(ctx.rng, "best")
        ctx.begin_case(case)
        ctx.observe("backend", "concurrent-threads")
        check_case(ctx, case)
    n_cases = ctx.scale(400, 10000)
    for _ in range(n_cases):
        if ctx.out_of_time():
            break
        case = gen_case(ctx, dspecs)
        if ctx.rng.random() < 0.12:
            from . import _align_common as ac
            labels = cases.dissim_labels(case["dissim"]) or cases.LABELS_SMALL
            case = {"continuum": case["continuum"], "dissim": case["dissim"],
                    "session": ac.gen_edit_ops(ctx.rng, case["continuum"], labels, ctx.rng.randint(2, 6))}
            if any(u[2] is None for us in case["continuum"]["ann"].values() for u in us):
                case["session"] = [op for op in case["session"] if op[0] != "add"] or [["reset_bounds"]]
        cs = case["continuum"]
        ctx.begin_case(case, nontrivial=cases.spec_num_units(cs) >= 2)
        ctx.observe("annotators", len(cs["ann"]))
        ctx.observe("shape", cases.spec_shape(cs))
        ctx.observe("family", cs.get("family"))
        ctx.observe("dissim", case["dissim"]["kind"])
        ctx.observe("backend", case.get("backend", "session"))
        ctx.observe("labels", "none" if all(u[2] is None for us in cs["ann"].values() for u in us) and
                    cases.spec_num_units(cs) else
                    ("mixed" if any(u[2] is None for us in cs["ann"].values() for u in us) else "all"))
        ctx.observe("empty_annotators", sum(1 for us in cs["ann"].values() if not us))
        check_case(ctx, case)
    # candidate tables filled to the brim: two annotators whose units are all mutually alignable, (p + 1) * q = the
    # kernel's table size (10 000 rows, then + 50 % per growth step), followed / preceded by isolated units whose only
    # candidate is their singleton - whichever candidate sits on a growth boundary is then indispensable
    for _ in range(ctx.scale(1, 4)):
        p_, q_ = ctx.rng.choice([(79, 125), (99, 100), (49, 200), (124, 80), (149, 100), (99, 150)])
        step = 0.01
        ann = {"a": [[round(i * step, 4), round(10 + i * step, 4), None] for i in range(p_)],
               "b": [[round(0.005 + j * step, 4), round(10.005 + j * step, 4), None] for j in range(q_)]}
        for k in range(ctx.rng.randint(1, 3)):
            ann["b"].append([1000.0 + 20 * k, 1010.0 + 20 * k, None])
        for k in range(ctx.rng.randint(0, 2)):
            ann["a"].append([-1000.0 - 20 * k, -990.0 - 20 * k, None])
        case = {"continuum": {"ann": ann, "family": "table-brim"}, "dissim": {"kind": "positional", "delta": 1.0}, "backend": "cbc"}
        ctx.begin_case(case)
        ctx.observe("family", "candidate-table-filled-to-the-brim")
        check_case(ctx, case)
    # very large candidate sets (> 100 000 tuples under the cut): dense overlapping units, 5 annotators x 10-11 units
    # (after the random cases, whatever is left of the time budget: one such case costs 10 - 60 s depending on the machine)
    for _ in range(ctx.scale(1, 6)):
        n, k = ctx.rng.choice([(5, 10), (5, 11), (4, 19)])
        big = cases.gen_continuum(ctx.rng, n_annot=n, sizes=[k] * n, family="dense", names=cases.pick_names(ctx.rng, n))
        case = {"continuum": big, "dissim": {"kind": "positional", "delta": 1.0}, "backend": "cbc"}
        ctx.begin_case(case)
        ctx.observe("family", "dense-huge-candidate-set")
        check_case(ctx, case)
