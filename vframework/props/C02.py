"""C02 - the best alignment has minimal disorder among all alignments (independent exact oracles)."""
from .. import cases, monitors, oracles
from . import _align_common as ac

TITLE = "Best alignment has minimal disorder among all alignments"
DECIDING = ["M-OPT", "M-SESSION"]
LEVEL = "exploration"
RULE = ("seeded random continua up to 2x9, 3x9, 4x5, 5x3 units x pooled dissimilarities (every class; alpha/beta "
        "incl. 0; delta_empty != 1) x both MIP back-ends, each compared with an unpruned exact optimum (bitmask "
        "dynamic programme <= 14 units, HiGHS MILP, assignment algorithm for 2 annotators); thorough tier adds the "
        "complete grids '2 annotators x <=3 units' (6 segments x 2 labels) and '3 annotators x <=2 units' (6 "
        "segments); dense 3x24 .. 3x26 / 4x11 continua with more than 10 000 candidates; unlabelled units in a quarter of the cases whose dissimilarity needs no "
        "label; a block with delta_empty 1e-4 .. 1e-6 (compared in units of delta_empty); a corpus of continua whose programme has an integrality gap (LP relaxation below the integer optimum, so "
        "that the solvers must branch; mined off-line, judged at run time); 10 % of the random cases are editing sessions (compute, edit the same continuum object, compute again; with a label-matrix dissimilarity "
        "the steps alternate between two instances of equal class, delta_empty, categories and weights but another matrix / other positions); "
        "non-trivial = at least 2 units and 2 non-empty annotators; distinct by SHA-1 of the case")
ASSUMPTIONS = [
    "pair costs are read from the dissimilarity's compiled d_mat on arrays built by the harness (a formula error "
    "is C04's business and affects both sides equally); the pair mean, the candidate enumeration (no pruning) and "
    "the optimisation are independent of the library",
    "tolerance |a-b| <= 2e-5*max(1,|a|,|b|) (library disorders are float32)",
    "oracle methods that disagree with each other make the run inconclusive, never a violation",
]


def plan(tier, seed):
    return ac.std_plan(tier)


def _oracle_doubt(ctx, what):
    """The ORACLE is in doubt on this case (its methods disagree, or the library found something cheaper than its
    'optimum'): the case is not judged; the run is inconclusive only if that happens on more than a few cases."""
    ctx.count("oracle-in-doubt")
    ctx.observe("oracle_in_doubt", what[:160])
    if ctx.monitors["oracle-in-doubt"] > max(3, 0.01 * ctx.evaluations):
        ctx.inconclusive_because("the independent oracle was in doubt on more than 1 % of the cases, e.g. " + what[:600])


def check_case(ctx, case):
    if "session" in case:
        # one continuum object and one dissimilarity object: compute, edit, compute again (stale caches show here)
        _, pool = ac.setup(ctx)
        continuum = cases.build_continuum(case["continuum"])
        for k, op in enumerate([None] + case["session"]):
            if op is not None:
                ac.apply_edit(continuum, op)
            if not continuum or len(continuum.annotators) < 2:
                continue
            ctx.count("M-SESSION")
            # (with "dissim_alt": the steps alternate between two dissimilarities of the same class, delta_empty, categories and
            # weights that measure differently - another matrix, other positions)
            dspec = case["dissim_alt"] if (case.get("dissim_alt") and k % 2 == 1) else case["dissim"]
            step = {"continuum": cases.spec_of(continuum), "dissim": dspec, "backend": case["backend"], "want": "auto"}
            _check(ctx, step, continuum)
        return
    _check(ctx, case, None)


def _check(ctx, case, continuum):
    spy, pool = ac.setup(ctx)
    cspec, dspec = case["continuum"], case["dissim"]
    dissim = pool.get(dspec)
    if continuum is None:
        continuum = cases.build_continuum(cspec)
    try:
        alignment, solvers = ac.call_alignment(continuum, dissim, case["backend"], "best", spy)
    except Exception as e:
        if case["backend"] == "allfail":
            ctx.observe("no_solver_usable", "refused:" + type(e).__name__)     # without any solver a refusal is the right answer
            return
        ctx.fail_exc(f"raises:{type(e).__name__}", e, monitor="M-OPT")
        return
    if case["backend"] == "allfail":
        ctx.observe("no_solver_usable", "an alignment was returned (judged like any other)")
    ctx.observe("solver", ",".join(solvers))
    nunits = cases.spec_num_units(cspec)
    want = case.get("want") or ("both" if (nunits <= 14 and ctx.rng.random() < 0.3) else "auto")
    opt = oracles.optimum(cspec, dissim, cover=False, want=want)
    ctx.observe("oracle_methods", "+".join(sorted(opt["methods"])))
    ctx.observe("oracle_candidates_log2", opt["n_candidates"].bit_length())
    if not opt["methods"]:
        # the independent solver gave up within its time limit (loaded machine): this case is simply not judged; the
        # number of such cases is reported, and the run is inconclusive only if they are more than a few
        ctx.count("oracle-unavailable")
        if ctx.monitors["oracle-unavailable"] > max(5, 0.05 * ctx.evaluations):
            ctx.inconclusive_because("the independent MILP oracle timed out on more than 5 % of the cases")
        return
    if not opt["agree"]:
        _oracle_doubt(ctx, f"oracle methods disagree: {opt['methods']} on {ctx.current}")
        return
    ctx.count("M-OPT")
    ref = opt["value"]
    got = float(alignment.disorder)
    pr = monitors.check_partition(continuum, alignment)
    if pr:
        ctx.fail("not-a-partition", {"problems": pr}, monitor="M-PART")
        return
    _, sizes, _, tensor = ac.oracle_tables(cspec, dissim)
    recomputed = ac.alignment_cost_from_tensor(cspec, alignment, tensor, sizes)
    detail = {"reported": got, "recomputed_from_units": recomputed, "oracle": opt["methods"], "solvers": solvers}
    if not oracles.close_at_scale(recomputed, ref, dissim.delta_empty):
        if recomputed > ref:
            ctx.fail("not-minimal", detail, monitor="M-OPT")
        else:
            _oracle_doubt(ctx, f"returned partition costs less than the oracle optimum: {detail}")
        return
    if not oracles.close_at_scale(got, ref, dissim.delta_empty):
        ctx.fail("reported-disorder-not-the-minimum", detail, monitor="M-OPT")


def run(ctx):
    ac.setup(ctx)
    dspecs = cases.gen_pool_specs(ctx.rng, ctx.scale(12, 30))
    dspecs += [{"kind": "positional", "delta": 0.5},
               {"kind": "combined", "alpha": 3.0, "beta": 0.0, "delta": 2.0, "pos": None, "cat": None},
               {"kind": "combined", "alpha": 0.0, "beta": 1.0, "delta": 0.1, "pos": None, "cat": None}]
    for _ in range(3):      # a few editing sessions first, whatever the time budget (deciding monitor)
        cs0 = cases.gen_continuum(ctx.rng, n_annot=3, max_units=3, allow_empty=False, labels=cases.LABELS_SMALL)
        case = {"continuum": cs0, "dissim": {"kind": "positional", "delta": 0.5}, "backend": "cbc",
                "session": ac.gen_edit_ops(ctx.rng, cs0, cases.LABELS_SMALL, 3)}
        ctx.begin_case(case)
        check_case(ctx, case)
    # near-tie sweep (see _align_common.near_tie_cases): a solver that stops within a gap, or breaks near-ties by a secondary
    # criterion, returns the dearer side
    ks = [k for k in range(-40, 41) if (k + 40) % ctx.nshards == ctx.shard]
    for i, cspec in enumerate(ac.near_tie_cases(ctx.rng, ks)):
        case = {"continuum": cspec, "dissim": {"kind": "positional", "delta": 1.0}, "backend": "cbc" if i % 2 else "glpk", "want": "auto"}
        ctx.begin_case(case)
        ctx.observe("family", "near-tie-sweep")
        check_case(ctx, case)
    # continua with an integrality gap (the solvers have to branch): see _align_common.hard_mip_cases
    for i, hc in enumerate(ac.hard_mip_cases(ctx, "partition", limit=ctx.scale(20, None))):
        case = dict(hc, backend="cbc" if i % 2 == 0 else "glpk", want="auto")
        ctx.begin_case(case)
        ctx.observe("family", "integrality-gap")
        check_case(ctx, case)
    # more than 10 000 candidate unitary alignments with >= 3 annotators (the library's candidate buffers grow past their first
    # size; the unpruned oracle has 15 000 - 25 000 columns)
    for i in range(ctx.scale(1, 5)):
        sizes = ctx.rng.choice([[24, 24, 24], [25, 24, 23], [26, 26, 26], [11, 11, 11, 11]])
        cspec = cases.gen_continuum(ctx.rng, n_annot=len(sizes), sizes=sizes, family="dense", labels=cases.LABELS_SMALL)
        case = {"continuum": cspec, "dissim": {"kind": "positional", "delta": 1.0} if i % 2 == 0 else
                {"kind": "combined", "alpha": 1.0, "beta": 1.0, "delta": 1.0, "pos": None, "cat": None}, "backend": "cbc", "want": "milp"}
        ctx.begin_case(case)
        ctx.observe("family", "more-than-10000-candidates")
        check_case(ctx, case)
    # very small delta_empty: every cost is of the order of 1e-5 .. 1e-6, below the absolute tolerances MIP solvers work with
    for i in range(ctx.scale(12, 200)):
        case = ac.gen_oracle_case(ctx, [{"kind": "positional", "delta": d_} for d_ in (1e-5, 3e-6, 3e-5)] +
                                  [{"kind": "combined", "alpha": 1.0, "beta": 1.0, "delta": d_, "pos": None, "cat": None} for d_ in (1e-5, 1e-6, 1e-4)],
                                  families=["dense", "longoverlap", "grid", "generic"])
        ctx.begin_case(case)
        ctx.observe("family", "small-delta_empty")
        ctx.observe("delta", case["dissim"]["delta"])
        check_case(ctx, case)
    n_cases = ctx.scale(250, 6000)
    for _ in range(n_cases):
        if ctx.out_of_time():
            break
        case = ac.gen_oracle_case(ctx, dspecs)
        if ctx.rng.random() < 0.05:
            case["backend"] = "allfail"      # every solver call raises SolverError: a refusal is fine, a wrong alignment is not
        if ctx.rng.random() < 0.1 and cases.spec_num_units(case["continuum"]) <= 12:
            labels = cases.dissim_labels(case["dissim"]) or cases.LABELS_SMALL
            case["session"] = ac.gen_edit_ops(ctx.rng, case["continuum"], labels, ctx.rng.randint(2, 4))
            alt = ac.same_parameters_other_measure(ctx.rng, case["dissim"])
            if alt is not None:
                case["dissim_alt"] = alt
                case["session"] = [["reset_bounds"]] + case["session"]      # (a step that leaves the units as they are comes first)
        cs = case["continuum"]
        nonempty = sum(1 for us in cs["ann"].values() if us)
        ctx.begin_case(case, nontrivial=cases.spec_num_units(cs) >= 2 and nonempty >= 2)
        ac.observe_case(ctx, case)
        check_case(ctx, case)
    if ctx.tier == "thorough":
        grid_dissims = [{"kind": "positional", "delta": 1.0},
                        {"kind": "combined", "alpha": 1.0, "beta": 1.0, "delta": 0.5, "pos": None, "cat": None}]
        k = 0
        done = 0
        for which in ("2x3", "3x2"):
            for cspec in ac.exhaustive_grid_cases(which):
                for dspec in grid_dissims:
                    k += 1
                    if k % ctx.nshards != ctx.shard:
                        continue
                    case = {"continuum": cspec, "dissim": dspec, "backend": "cbc" if (k // ctx.nshards) % 2 else "glpk",
                            "want": "auto"}
                    nonempty = sum(1 for us in cspec["ann"].values() if us)
                    ctx.begin_case(case, nontrivial=cases.spec_num_units(cspec) >= 2 and nonempty >= 2)
                    ctx.observe("exhaustive_subfamily", which)
                    check_case(ctx, case)
                    done += 1
        ctx.note("exhaustive_grid_complete", True)
        ctx.observe("exhaustive_cases_done", "n", done)
