"""C03 - disorder values follow the definition; cached, carried and recomputed values agree; slot order is irrelevant."""
from .. import cases, monitors, oracles
from . import _align_common as ac

TITLE = "Disorder values follow the definition"
DECIDING = ["M-DIS", "M-DEF-ALIGN", "M-DEF-UNITARY", "M-SLOT-ORDER", "M-CARRIED-VS-RECOMPUTED", "M-AFTER-EDIT", "M-DIS-CONCURRENT", "M-TWO-DISSIMILARITIES"]
LEVEL = "exploration"
RULE = ("(A) alignments returned by the library (best / soft / fast with random window sizes) on seeded random continua: "
        "cached Alignment.disorder and carried per-unitary disorders against the float64 definition recomputed from "
        "the units, then Alignment.compute_disorder and the lazily summed disorder of a rebuilt Alignment; (B) hand-built "
        "alignments: random partitions with every pattern of empty slots, 2-5 annotators, with or without an attached "
        "continuum, slots shuffled: Alignment.compute_disorder, the disorders it stores, UnitaryAlignment."
        "compute_disorder, each against the definition and against each other, before and after permuting the slots; (C) returned alignments are also "
        "computed with cylp masked, with every CBC call failing and (fast mode) with every 2nd / 3rd CBC call failing; (D) one alignment object measured with a second dissimilarity and with the first again; one dissimilarity object "
        "recomputing the disorders of same-shaped alignments from 4 user threads at once. "
        "non-trivial = alignment with >= 2 real units; distinct by SHA-1 of (continuum, dissimilarity, alignment)")
ASSUMPTIONS = [
    "the reference evaluates the definition in float64 through the dissimilarity's unit-to-unit function d() (C04 "
    "ties d() to the compiled form and to the documented formula)",
    "tolerance |a-b| <= 2e-5*max(1,|a|,|b|) (library values are float32)",
    "20 % of the cases use arbitrary doubles far from the origin with short units; for those the reference takes its pair "
    "costs from the compiled kernel on float32 arrays (start, end, float64 duration rounded once) - the precision model "
    "the library documents - and carried / recomputed / stored values must agree with it and with each other",
    "known finding D2 (UnitaryAlignment.compute_disorder scaled by n/k when k < n slots hold a unit) is recognised "
    "only by its exact quantitative signature",
]


def plan(tier, seed):
    p = ac.std_plan(tier, quick_budget=70, thorough_budget=600)
    if tier == "thorough":   # the repository's own suite as extra workload for M-DIS
        p["shards"].append({"env": {}, "params": {"suite": "dis,prog"}})
        p["timeout"] = 3000
    return p


def _units_of(ua):
    return [u for _, u in ua.n_tuple]


def check_returned(ctx, case):
    _, pool = ac.setup(ctx)
    cspec, dspec = case["continuum"], case["dissim"]
    dissim = pool.get(dspec)
    continuum = cases.build_continuum(cspec)
    mode = case["mode"]
    spy, _ = ac.setup(ctx)
    try:
        with ac.solver_config(spy, case.get("backend", "cbc")):
            if mode == "best":
                al = continuum.get_best_alignment(dissim)
            elif mode == "soft":
                al = continuum.get_best_soft_alignment(dissim)
            else:
                al = continuum.get_fast_alignment(dissim, case["window"])
    except Exception as e:
        ctx.fail_exc(f"{mode}:raises:{type(e).__name__}", e, monitor="M-DIS")
        return
    ctx.count("M-DIS")
    via = "d_mat" if case.get("arbitrary_doubles") else "d"
    pr, ref_total = monitors.check_disorders(continuum, al, dissim, via=via)
    if pr:
        ctx.fail(f"{mode}:returned-disorder-mismatch", {"problems": pr, "reference_pair_costs": via}, monitor="M-DIS")
    carried = [float(ua.disorder) for ua in al.unitary_alignments]
    # lazily summed disorder of an alignment rebuilt from the carried unitary disorders
    from pygamma_agreement.alignment import Alignment, SoftAlignment
    cls = SoftAlignment if mode == "soft" else Alignment
    rebuilt = cls(list(al.unitary_alignments), continuum=continuum)
    ctx.count("M-DEF-ALIGN")
    try:
        lazy = float(rebuilt.disorder)
        if not oracles.close(lazy, ref_total):
            ctx.fail(f"{mode}:lazy-sum-mismatch", {"lazy": lazy, "definition": ref_total}, monitor="M-DEF-ALIGN")
    except Exception as e:
        ctx.fail_exc(f"{mode}:lazy-sum-raises:{type(e).__name__}", e, monitor="M-DEF-ALIGN")
    # recomputation from the units
    try:
        rec = float(al.compute_disorder(dissim))
        if not oracles.close(rec, ref_total):
            ctx.fail(f"{mode}:recomputed-mismatch", {"recomputed": rec, "definition": ref_total}, monitor="M-DEF-ALIGN")
        # the per-unitary disorders stored by the recomputation must agree with the ones the alignment carried
        ctx.count("M-CARRIED-VS-RECOMPUTED")
        for k, (c0, ua) in enumerate(zip(carried, al.unitary_alignments)):
            if not oracles.close(c0, float(ua.disorder)):
                ctx.fail(f"{mode}:carried-unitary-disorder-differs-from-recomputed",
                         {"k": k, "carried": c0, "recomputed": float(ua.disorder)}, monitor="M-CARRIED-VS-RECOMPUTED")
                break
        if not oracles.close(float(al.disorder), ref_total):
            ctx.fail(f"{mode}:cached-after-recompute-mismatch", {"cached": float(al.disorder), "definition": ref_total},
                     monitor="M-DEF-ALIGN")
    except Exception as e:
        ctx.fail_exc(f"{mode}:recompute-raises:{type(e).__name__}", e, monitor="M-DEF-ALIGN")


def check_handbuilt(ctx, case):
    _, pool = ac.setup(ctx)
    cspec, dspec, aspec = case["continuum"], case["dissim"], case["alignment"]
    dissim = pool.get(dspec)
    continuum = cases.build_continuum(cspec) if case["attach"] else None
    names = sorted(cspec["ann"].keys())
    n = len(names)
    nunits = cases.spec_num_units(cspec)
    avg = nunits / n
    al = cases.build_alignment(cspec, aspec, continuum=continuum, slot_order=case.get("slot_order"))
    pair = dissim.d
    if case.get("arbitrary_doubles"):
        pair = monitors.compiled_pair_cost(dissim, cases.spec_labels(cspec))
    refs = [oracles.ref_unitary_disorder(_units_of(ua), pair, dissim.delta_empty) for ua in al.unitary_alignments]
    ref_total = sum(refs) / avg
    ctx.count("M-DEF-ALIGN")
    try:
        got = float(al.compute_disorder(dissim))
    except Exception as e:
        ctx.fail_exc(f"handbuilt:compute-raises:{type(e).__name__}", e, monitor="M-DEF-ALIGN")
        return
    if not oracles.close(got, ref_total):
        ctx.fail("handbuilt:alignment-disorder-mismatch", {"got": got, "definition": ref_total, "avg_units": avg,
                                                           "attached": case["attach"]}, monitor="M-DEF-ALIGN")
    if not oracles.close(float(al.disorder), got):
        ctx.fail("handbuilt:cached-differs-from-computed", {"cached": float(al.disorder), "computed": got},
                 monitor="M-DEF-ALIGN")
    for k, ua in enumerate(al.unitary_alignments):
        ctx.count("M-DIS")
        if not oracles.close(float(ua.disorder), refs[k]):
            ctx.fail("handbuilt:stored-unitary-disorder-mismatch", {"k": k, "got": float(ua.disorder), "definition": refs[k]},
                     monitor="M-DIS")
    # the SAME alignment object measured with a second dissimilarity, then with the first again: each value (returned, cached,
    # stored per unitary alignment) is the one of the dissimilarity of that call
    if case.get("second_dissim") and not case.get("arbitrary_doubles"):
        d2 = pool.get(case["second_dissim"])
        for which, dd in (("second", d2), ("first-again", dissim)):
            ctx.count("M-TWO-DISSIMILARITIES")
            refs_ = [oracles.ref_unitary_disorder(_units_of(ua), dd.d, dd.delta_empty) for ua in al.unitary_alignments]
            want = sum(refs_) / avg
            try:
                v = float(al.compute_disorder(dd))
            except Exception as e:
                ctx.fail_exc(f"two-dissimilarities:{which}:raises:{type(e).__name__}", e, monitor="M-TWO-DISSIMILARITIES")
                break
            stored = [float(ua.disorder) for ua in al.unitary_alignments]
            if not oracles.close(v, want) or not oracles.close(float(al.disorder), want) or any(not oracles.close(a, b) for a, b in zip(stored, refs_)):
                ctx.fail(f"two-dissimilarities:{which}:disorder-mismatch", {"returned": v, "cached": float(al.disorder), "definition": want,
                                                                           "stored": stored[:4], "definition_per_unitary": refs_[:4]}, monitor="M-TWO-DISSIMILARITIES")
                break
    # UnitaryAlignment.compute_disorder on fresh objects, in the given and in a permuted slot order
    from pygamma_agreement.alignment import UnitaryAlignment
    for k, ua in enumerate(al.unitary_alignments):
        nt = list(ua.n_tuple)
        real = sum(1 for _, u in nt if u is not None)
        ctx.count("M-DEF-UNITARY")
        ctx.observe("unitary_real_units_of_n", f"{real}/{n}")
        try:
            v1 = float(UnitaryAlignment(list(nt)).compute_disorder(dissim))
        except Exception as e:
            ctx.fail_exc(f"unitary:compute-raises:{type(e).__name__}", e, monitor="M-DEF-UNITARY")
            continue
        perm = list(nt)
        ctx.rng.shuffle(perm)
        v2 = float(UnitaryAlignment(perm).compute_disorder(dissim))
        ctx.count("M-SLOT-ORDER")
        if not oracles.close(v1, v2):
            ctx.fail("unitary:depends-on-slot-order", {"order1": [a for a, _ in nt], "v1": v1,
                                                       "order2": [a for a, _ in perm], "v2": v2}, monitor="M-SLOT-ORDER")
        if not oracles.close(v1, refs[k]):
            if real < n and real > 0 and oracles.close(v1, refs[k] * n / real):
                ctx.fail("D2:unitary-compute-disorder-scaled-by-n-over-k",
                         {"got": v1, "definition": refs[k], "n": n, "k": real}, monitor="M-DEF-UNITARY")
            else:
                ctx.fail("unitary:compute-disorder-mismatch", {"got": v1, "definition": refs[k], "n": n, "k": real},
                         monitor="M-DEF-UNITARY")
    # history on the SAME objects: a unit is moved into an empty slot of another unitary alignment through the public
    # n_tuple setter, then everything is computed again (stale cached counts / disorders show here)
    if case.get("edit") and len(al.unitary_alignments) >= 2:
        uas = al.unitary_alignments
        moved = False
        for i in range(len(uas)):
            for j in range(len(uas)):
                if i == j or moved:
                    continue
                ti, tj = list(uas[i].n_tuple), list(uas[j].n_tuple)
                slot_i = {a: k for k, (a, _) in enumerate(ti)}
                for kj, (a2, u2) in enumerate(tj):
                    ki = slot_i.get(a2)
                    if ki is not None and u2 is not None and ti[ki][1] is None and sum(1 for _, u in tj if u is not None) >= 2:
                        ti[ki], tj[kj] = (a2, u2), (a2, None)
                        uas[i].n_tuple, uas[j].n_tuple = ti, tj
                        moved = True
                        break
        avg2 = avg
        if not case["attach"] and ctx.rng.random() < 0.6:
            # without an attached continuum the alignment is its own universe: emptying a slot changes the mean number of
            # units per annotator the alignment disorder is divided by
            for ua in uas:
                t = list(ua.n_tuple)
                real = [k for k, (_, u) in enumerate(t) if u is not None]
                if len(real) >= 2:
                    k = ctx.rng.choice(real)
                    t[k] = (t[k][0], None)
                    ua.n_tuple = t
                    moved = True
                    avg2 = sum(1 for x in uas for _, u in x.n_tuple if u is not None) / n
                    break
        if moved:
            ctx.count("M-AFTER-EDIT")
            refs2 = [oracles.ref_unitary_disorder(_units_of(ua), pair, dissim.delta_empty) for ua in al.unitary_alignments]
            ref2 = sum(refs2) / avg2
            try:
                got3 = float(al.compute_disorder(dissim))
                if not oracles.close(got3, ref2):
                    ctx.fail("after-n_tuple-edit:alignment-disorder-mismatch", {"got": got3, "definition": ref2, "attached": case["attach"]},
                             monitor="M-AFTER-EDIT")
                for k, ua in enumerate(al.unitary_alignments):
                    if not oracles.close(float(ua.disorder), refs2[k]):
                        ctx.fail("after-n_tuple-edit:stored-unitary-disorder-mismatch", {"k": k, "got": float(ua.disorder),
                                                                                       "definition": refs2[k]}, monitor="M-AFTER-EDIT")
                        break
            except Exception as e:
                ctx.fail_exc(f"after-n_tuple-edit:raises:{type(e).__name__}", e, monitor="M-AFTER-EDIT")
    # whole alignment with permuted slots and permuted unitary alignments
    order2 = list(names)
    ctx.rng.shuffle(order2)
    aspec2 = list(aspec)
    ctx.rng.shuffle(aspec2)
    al2 = cases.build_alignment(cspec, aspec2, continuum=continuum, slot_order=order2)
    ctx.count("M-SLOT-ORDER")
    got2 = float(al2.compute_disorder(dissim))
    if not oracles.close(got2, got):
        ctx.fail("alignment:depends-on-slot-order", {"order1": case.get("slot_order") or names, "v1": got,
                                                     "order2": order2, "v2": got2}, monitor="M-SLOT-ORDER")


def check_concurrent(ctx, case):
    """ONE dissimilarity object used by several user threads at once to recompute the disorders of same-shaped alignments
    (same number of unitary alignments and annotators, other units): every thread must get the value the same call gives alone."""
    from pygamma_agreement.alignment import UnitaryAlignment
    _, pool = ac.setup(ctx)
    dissim = pool.get(case["dissim"])
    aligns = [cases.build_alignment(cs, case["alignment"], continuum=None) for cs in case["continua"]]
    try:
        ref = [float(al.compute_disorder(dissim)) for al in aligns]
        ref_u = [[float(UnitaryAlignment(list(ua.n_tuple)).compute_disorder(dissim)) for ua in al.unitary_alignments] for al in aligns]
    except Exception as e:
        ctx.fail_exc(f"concurrent:sequential-reference-raises:{type(e).__name__}", e, monitor="M-DIS-CONCURRENT")
        return

    def work(i):
        al = cases.build_alignment(case["continua"][i], case["alignment"], continuum=None)
        out = []
        for _ in range(case.get("repeat", 6)):
            tot = float(al.compute_disorder(dissim))
            per = [float(ua.disorder) for ua in al.unitary_alignments]
            uni = [float(UnitaryAlignment(list(ua.n_tuple)).compute_disorder(dissim)) for ua in al.unitary_alignments[:3]]
            out.append((tot, per, uni))
        return out
    results = ac.concurrent_calls([(lambda i=i: work(i)) for i in range(len(aligns))])
    for i, (res, exc) in enumerate(results):
        ctx.count("M-DIS-CONCURRENT")
        if exc is not None:
            ctx.fail_exc(f"concurrent:compute_disorder-raises:{type(exc).__name__}", exc, monitor="M-DIS-CONCURRENT")
            continue
        for tot, per, uni in res:
            if not oracles.close(tot, ref[i]):
                ctx.fail("concurrent:alignment-disorder-differs-from-the-same-call-alone", {"thread": i, "concurrent": tot, "alone": ref[i]},
                         monitor="M-DIS-CONCURRENT")
                break
            if any(not oracles.close(a, b) for a, b in zip(uni, ref_u[i][:3])):
                ctx.fail("concurrent:unitary-disorder-differs-from-the-same-call-alone", {"thread": i, "concurrent": uni, "alone": ref_u[i][:3]},
                         monitor="M-DIS-CONCURRENT")
                break


def gen_concurrent(rng, dspecs):
    n = rng.choice([2, 3, 3, 4])
    sizes = [rng.randint(2, 4) for _ in range(n)]
    dspec = rng.choice([d for d in dspecs if cases.dissim_labels(d) is None] or [{"kind": "positional", "delta": 1.0}])
    continua = [cases.gen_continuum(rng, n_annot=n, sizes=sizes, labels=rng.choice([cases.LABELS_SMALL, ["x", "y"], ["Noun", "Verb", "a", "b2"]]),
                                    names=cases.ANNOTATOR_NAMES[:n], family=rng.choice(["grid", "dyadic", "longoverlap"])) for _ in range(4)]
    for cs in continua:
        cs.pop("readd", None)
    if any([len(us) for us in cs["ann"].values()] != sizes for cs in continua):
        return None        # a generated unit coincided with another one: not the same shape
    aspec = cases.random_partition_alignment(rng, continua[0], p_join=0.6)
    return {"type": "concurrent", "dissim": dspec, "continua": continua, "alignment": aspec, "repeat": 6}


def check_case(ctx, case):
    if case["type"] == "concurrent":
        return check_concurrent(ctx, case)
    if case["type"] == "returned":
        check_returned(ctx, case)
    else:
        check_handbuilt(ctx, case)


def run(ctx):
    ac.setup(ctx)
    if ctx.params.get("suite"):
        from ..suite import run_suite_under_monitors
        run_suite_under_monitors(ctx, ctx.params["suite"])
        return
    rng = ctx.rng
    dspecs = cases.gen_pool_specs(rng, ctx.scale(12, 30))
    dspecs.append({"kind": "combined", "alpha": 1.0, "beta": 1.0, "delta": 0.5, "pos": None, "cat": None})
    # degenerate weights: one of the two terms switched off, the other weight not 1
    for a_, b_ in ((0.0, 0.5), (0.0, 3.0), (0.5, 0.0), (3.0, 0.0), (0.0, 1.0)):
        dspecs.append({"kind": "combined", "alpha": a_, "beta": b_, "delta": rng.choice([0.5, 1.0, 2.0]), "pos": None, "cat": None})
    # one dissimilarity object recomputing the disorders of same-shaped alignments in several user threads at once
    done = 0
    for _ in range(ctx.scale(30, 400)):
        case = gen_concurrent(rng, dspecs)
        if case is None:
            continue
        ctx.begin_case(case)
        ctx.observe("mode", "concurrent-threads")
        check_case(ctx, case)
        done += 1
        if done >= ctx.scale(6, 80):
            break
    n_cases = ctx.scale(450, 12000)
    for i in range(n_cases):
        if ctx.out_of_time():
            break
        dspec = rng.choice(dspecs)
        labels = cases.dissim_labels(dspec)
        n = rng.randint(2, 5)
        mx = {2: 9, 3: 6, 4: 5, 5: 4}[n]
        cspec = cases.gen_continuum(rng, n_annot=n, max_units=rng.randint(1, mx), labels=labels or cases.LABELS_SMALL,
                                    min_total=2, p_none=(rng.choice([0.0, 0.3, 1.0]) if labels is None else 0.0))
        arbitrary = rng.random() < 0.2
        if arbitrary:
            # arbitrary doubles far from the origin with short units: not float32-representable, so the reference takes
            # its pair costs from the compiled kernel on float32 arrays built the way the library documents them
            off = rng.choice([0.0, 20000.0, 86400.0, 3600.5]) + rng.random()
            k = rng.choice([0.01, 0.03, 1.0, 1 / 3])
            cspec = {"ann": {a: [[off + u[0] * k, off + u[0] * k + max(2e-4, (u[1] - u[0]) * k * rng.uniform(0.5, 1.5)), u[2]]
                                 for u in us] for a, us in cspec["ann"].items()}, "family": "arbitrary-doubles"}
            # (two units of one annotator may have become the same unit - same start, both durations clamped: a spec lists each unit once)
            cspec["ann"] = {a: [list(t) for t in sorted({tuple(u) for u in us}, key=cases.unit_key)] for a, us in cspec["ann"].items()}
        if i % 3 == 0:
            mode = rng.choice(["best", "soft", "fast"])
            case = {"type": "returned", "continuum": cspec, "dissim": dspec, "mode": mode, "arbitrary_doubles": arbitrary,
                    "backend": rng.choice(["cbc", "cbc", "glpk", "cbcfail"] + (["cbcfail2", "cbcfail3"] if mode == "fast" else []))}
            if mode == "fast":
                case["window"] = rng.randint(1, mx + 1)
            ctx.begin_case(case)
            ctx.observe("mode", mode)
            ctx.observe("solver_configuration", case["backend"])
        else:
            aspec = cases.random_partition_alignment(rng, cspec, p_join=rng.choice([0.2, 0.6, 0.9]))
            names = sorted(cspec["ann"].keys())
            order = None
            if rng.random() < 0.5:
                order = list(names)
                rng.shuffle(order)
            case = {"type": "handbuilt", "continuum": cspec, "dissim": dspec, "alignment": aspec,
                    "attach": rng.random() < 0.5, "slot_order": order, "arbitrary_doubles": arbitrary, "edit": rng.random() < 0.5}
            if rng.random() < 0.35:
                # a second dissimilarity that accepts the same labels: a label-free one, or one of equal parameters that measures differently
                alt = ac.same_parameters_other_measure(rng, dspec)
                case["second_dissim"] = alt if (alt is not None and rng.random() < 0.5) else rng.choice(
                    [{"kind": "positional", "delta": 0.5}, {"kind": "combined", "alpha": 3.0, "beta": 0.5, "delta": 2.0, "pos": None, "cat": None}])
                if case["second_dissim"]["kind"] != "positional" and any(u[2] is None for us in cspec["ann"].values() for u in us) \
                        and cases.dissim_labels(case["second_dissim"]) is not None:
                    case.pop("second_dissim")
            ctx.begin_case(case)
            ctx.observe("mode", "handbuilt-attached" if case["attach"] else "handbuilt-detached")
        ctx.observe("annotators", n)
        ctx.observe("dissim", dspec["kind"])
        ctx.observe("times", "arbitrary doubles" if arbitrary else "float32-representable")
        check_case(ctx, case)
