"""C04 - built-in dissimilarities compute their documented formula in both forms (d() and the compiled kernel)."""
import math

from .. import cases, oracles
from . import _align_common as ac

TITLE = "Built-in dissimilarities compute their documented formula in both forms"
DECIDING = ["M-FORMULA", "M-COMPILED", "M-KERNEL-VIA-CONTINUUM", "M-SYMMETRY", "M-LABEL-ORDER", "M-OLDER-INSTANCE", "M-PRE-USE", "M-SHARED-COMPONENT", "M-KERNEL-CONCURRENT", "M-DELTA-TWIN"]
LEVEL = "exploration"
RULE = ("a case = one dissimilarity instance (every built-in class; delta_empty, alpha, beta from the documented value "
        "sets; labels supplied sorted or shuffled; 1-300 categories; precomputed matrices as float32, float64, integer or boolean "
        "arrays, some overwritten by the caller after construction; ordinal positions small or with a large common offset, as floats, plain ints or numpy (unsigned) integer arrays; components built with the same or another "
        "delta_empty) and 12-24 random unit pairs (ten segment families; labels from the instance's categories); for "
        "each pair: d(), the compiled value through UnitaryAlignment(...).compute_disorder and through "
        "valid_alignments on a 2-annotator continuum, the documented formula, symmetry, non-negativity, zero on "
        "identical units; per instance: the same two names in a twin instance built with shuffled labels / extra "
        "categories, and in a twin built with c * delta_empty (values must be c times larger); histories: a categorical component that was used (d() called) before being handed to the combined "
        "constructor, and the previous case's instance measured again after the current one was built (several instances "
        "alive at once), one component object shared by two combined dissimilarities with different delta_empty, one label-free instance computing candidate tables for continua with different category sets in 4 user threads at once. non-trivial = pair of different units; distinct by SHA-1 of (instance, pairs)")
ASSUMPTIONS = [
    "tolerance |a-b| <= 1e-5*max(|a|,|b|) + 1e-6*delta_empty (compiled form is float32)",
    "generated times are float32-representable, so both forms see the same numbers",
    "Levenshtein: the documentation only says 'proportional': the value must be (true edit distance)/(normaliser) where "
    "the normaliser is either max(len) or max(len)+1 for the whole instance",
    "ordinal / numerical: value == k*|p(a)-p(b)|*delta_empty with one k > 0 per instance (proportionality is what the "
    "statement demands); default positions are 0,1,2.. in the order the labels were supplied (documented)",
    "categorical value for a label set larger than the continuum's: the entry for the two *names*",
]


def plan(tier, seed):
    return ac.std_plan(tier, quick_budget=70, thorough_budget=600)


def tol(a, b, delta):
    return abs(a - b) <= 1e-5 * max(abs(a), abs(b)) + 1e-6 * abs(delta)


# ----------------------------------------------------------------------------- reference formulae
def positions_of(dspec):
    cats = dspec["cats"]
    if dspec["kind"] == "numerical":
        return {c: float(c) for c in cats}
    p = dspec.get("p")
    if p is None:
        p = list(range(len(cats)))
    return {c: float(x) for c, x in zip(cats, p)}


def formula(dspec, u1, u2, delta=None, ctxinfo=None):
    """Documented value for two units (s, e, label), float64.  `delta` overrides the spec's own (combined)."""
    k = dspec["kind"]
    d = float(_f32(dspec["delta"] if delta is None else delta))
    if k == "positional":
        return ((abs(u1[0] - u2[0]) + abs(u1[1] - u2[1])) / ((u1[1] - u1[0]) + (u2[1] - u2[0]))) ** 2 * d
    if k == "absolute":
        return (0.0 if u1[2] == u2[2] else 1.0) * d
    if k == "precomputed":
        cats = sorted(dspec["cats"])
        return float(_f32(dspec["matrix"][cats.index(u1[2])][cats.index(u2[2])])) * d
    if k == "levenshtein":
        return None   # decided by check_levenshtein (normaliser is instance-wide)
    if k in ("ordinal", "numerical"):
        return None   # decided by proportionality
    if k == "combined":
        pos = formula({"kind": "positional", "delta": d}, u1, u2)
        cat = dspec.get("cat") or {"kind": "absolute"}
        c = formula(dict(cat, delta=d), u1, u2)
        if c is None:
            return None
        return dspec["alpha"] * pos + dspec["beta"] * c
    raise ValueError(k)


def _f32(x):
    return cases.f32(float(x))


def cat_component(dspec):
    if dspec["kind"] == "combined":
        return dspec.get("cat") or {"kind": "absolute", "delta": dspec["delta"]}
    return dspec


def cat_value_from(dspec, total, u1, u2):
    """Categorical part of a measured value, normalised by delta_empty (removes the positional term of a combined
    dissimilarity).  Returns (value, absolute error bound): the measured total is a float32 quantity, so removing a
    large positional term and dividing by a small beta*delta amplifies its rounding error."""
    delta = float(_f32(dspec["delta"]))
    if dspec["kind"] != "combined":
        return total / delta, 4e-6 * abs(total) / delta
    if dspec["beta"] == 0:
        return None
    pos = dspec["alpha"] * formula({"kind": "positional", "delta": dspec["delta"]}, u1, u2)
    scale = dspec["beta"] * delta
    return (total - pos) / scale, 4e-6 * max(abs(total), abs(pos)) / scale


# ----------------------------------------------------------------------------- measuring the three forms
def measure(dissim, u1, u2, via_continuum):
    from pygamma_agreement.alignment import UnitaryAlignment
    from pygamma_agreement.continuum import Unit, Continuum
    from pyannote.core import Segment
    a = Unit(Segment(u1[0], u1[1]), u1[2])
    b = Unit(Segment(u2[0], u2[1]), u2[2])
    out = {"d": float(dissim.d(a, b)), "d_rev": float(dissim.d(b, a))}
    out["compiled"] = float(UnitaryAlignment([("x", a), ("y", b)]).compute_disorder(dissim))
    out["compiled_rev"] = float(UnitaryAlignment([("x", b), ("y", a)]).compute_disorder(dissim))
    out["self"] = float(UnitaryAlignment([("x", a), ("y", a)]).compute_disorder(dissim))
    out["self_d"] = float(dissim.d(a, a))
    if via_continuum:
        c = Continuum()
        c.add("x", Segment(u1[0], u1[1]), u1[2])
        c.add("y", Segment(u2[0], u2[1]), u2[2])
        dis, tup = dissim.valid_alignments(c)
        out["kernel"] = None
        for v, t in zip(dis, tup):
            if t[0] == 0 and t[1] == 0:
                out["kernel"] = float(v)
        out["kernel_cut"] = 2 * float(dissim.delta_empty)
    return out


_previous = {}


def build_with_history(ctx, case):
    """Builds the instance the way a user session might: for a combined dissimilarity with an explicit categorical
    component, the component is built first and USED (d() on the case's pairs, checked against the component's own
    formula with its own delta_empty), and only then handed to the combined constructor."""
    import pygamma_agreement as pa
    dspec = case["dissim"]
    if dspec["kind"] != "combined" or not dspec.get("cat") or not case.get("pre_use"):
        return cases.build_dissim(dspec)
    comp_spec = dspec["cat"]
    comp = cases.build_dissim(comp_spec)
    from pygamma_agreement.continuum import Unit
    from pyannote.core import Segment
    cdelta = float(_f32(comp_spec["delta"]))
    for (u1, u2) in case["pairs"][:10]:
        ctx.count("M-PRE-USE")
        v = float(comp.d(Unit(Segment(u1[0], u1[1]), u1[2]), Unit(Segment(u2[0], u2[1]), u2[2])))
        ref = formula(comp_spec, u1, u2)
        if ref is not None and not tol(v, ref, cdelta):
            ctx.fail(f"{comp_spec['kind']}:component-d-differs-from-formula", {"pair": [u1, u2], "d": v, "formula": ref},
                     monitor="M-FORMULA")
    pos = None if dspec.get("pos") is None else pa.PositionalSporadicDissimilarity(dspec["pos"]["delta"])
    return pa.CombinedCategoricalDissimilarity(alpha=dspec["alpha"], beta=dspec["beta"], delta_empty=dspec["delta"],
                                               pos_dissim=pos, cat_dissim=comp)


def check_shared_component(ctx, case):
    """ONE component object (categorical or positional) handed to two combined dissimilarities with different delta_empty:
    each of the two must follow the formula with its own delta_empty, the older one also after the newer one was built."""
    import pygamma_agreement as pa
    a_spec, b_spec = case["dissim"], case["dissim_b"]
    try:
        cat = cases.build_dissim(a_spec["cat"]) if a_spec.get("cat") else None
        pos = pa.PositionalSporadicDissimilarity(a_spec["pos"]["delta"]) if a_spec.get("pos") else None
        kw = {}
        if cat is not None:
            kw["cat_dissim"] = cat
        if pos is not None:
            kw["pos_dissim"] = pos
        A = pa.CombinedCategoricalDissimilarity(alpha=a_spec["alpha"], beta=a_spec["beta"], delta_empty=a_spec["delta"], **kw)
        _measure_all(ctx, dict(case, pairs=case["pairs"][:6], twin=None), A, tag="shared-component:first:")
        B = pa.CombinedCategoricalDissimilarity(alpha=b_spec["alpha"], beta=b_spec["beta"], delta_empty=b_spec["delta"], **kw)
    except Exception as e:
        ctx.fail_exc(f"shared-component:constructor-raises:{type(e).__name__}", e, monitor="M-FORMULA")
        return
    ctx.count("M-SHARED-COMPONENT")
    _measure_all(ctx, dict(case, twin=None), A, tag="shared-component:first-after-second-was-built:")
    _measure_all(ctx, dict(case, dissim=b_spec, twin=None), B, tag="shared-component:second:")


def check_case(ctx, case):
    ac.setup(ctx)
    if case.get("concurrent") == "candidates":
        return ac.check_concurrent_candidates_case(ctx, case, "M-KERNEL-CONCURRENT")
    if case.get("dissim_b"):
        return check_shared_component(ctx, case)
    dspec = case["dissim"]
    try:
        dissim = build_with_history(ctx, case)
    except Exception as e:
        ctx.fail_exc(f"constructor-raises:{type(e).__name__}", e, monitor="M-FORMULA")
        return
    # an OLDER instance (the previous case's, still alive) is measured again now that a newer one has been built
    prev = _previous.get("case")
    if prev is not None and not case.get("is_recheck"):
        ctx.count("M-OLDER-INSTANCE")
        _measure_all(ctx, dict(prev["case"], pairs=prev["case"]["pairs"][:6], twin=None, is_recheck=True), prev["dissim"],
                     tag="older-instance-after-a-newer-was-built:")
    _previous["case"] = {"case": case, "dissim": dissim}
    _measure_all(ctx, case, dissim, tag="")


def _measure_all(ctx, case, dissim, tag):
    dspec = case["dissim"]
    delta = float(_f32(dspec["delta"]))
    comp = cat_component(dspec)
    if tag:
        ctx = _Tagged(ctx, tag)
    prop_points = []   # (distance of positions or edit distance info, categorical value) for proportional classes
    for idx, (u1, u2) in enumerate(case["pairs"]):
        via = idx % 3 == 0
        try:
            m = measure(dissim, u1, u2, via)
        except Exception as e:
            ctx.fail_exc(f"{dspec['kind']}:evaluation-raises:{type(e).__name__}", e, monitor="M-COMPILED")
            continue
        ctx.count("M-COMPILED")
        kind = dspec["kind"] if dspec["kind"] != "combined" else "combined/" + comp["kind"]
        detail = {"pair": [u1, u2], "measured": m, "pair_index": idx}
        if not tol(m["compiled"], m["d"], delta):
            ctx.fail(f"{kind}:compiled-differs-from-d", detail, monitor="M-COMPILED")
        if via:
            ctx.count("M-KERNEL-VIA-CONTINUUM")
            if m["kernel"] is None:
                if m["d"] < m["kernel_cut"] * (1 - 1e-5):
                    ctx.fail(f"{kind}:pair-under-cut-missing-from-candidates", detail, monitor="M-KERNEL-VIA-CONTINUUM")
            elif not tol(m["kernel"], m["d"], delta):
                ctx.fail(f"{kind}:alignment-kernel-differs-from-d", detail, monitor="M-KERNEL-VIA-CONTINUUM")
        ctx.count("M-SYMMETRY")
        if not tol(m["d"], m["d_rev"], delta) or not tol(m["compiled"], m["compiled_rev"], delta):
            ctx.fail(f"{kind}:asymmetric", detail, monitor="M-SYMMETRY")
        if m["d"] < -1e-9 or m["compiled"] < -1e-9:
            ctx.fail(f"{kind}:negative", detail, monitor="M-SYMMETRY")
        if abs(m["self"]) > 1e-9 or abs(m["self_d"]) > 1e-9:
            ctx.fail(f"{kind}:nonzero-on-identical-units", detail, monitor="M-SYMMETRY")
        ref = formula(dspec, u1, u2)
        if ref is not None:
            ctx.count("M-FORMULA")
            detail["formula"] = ref
            if not tol(m["d"], ref, delta):
                ctx.fail(f"{kind}:d-differs-from-formula", detail, monitor="M-FORMULA")
            if not tol(m["compiled"], ref, delta):
                ctx.fail(f"{kind}:compiled-differs-from-formula", detail, monitor="M-FORMULA")
        else:
            for form in ("d", "compiled"):
                cv = cat_value_from(dspec, m[form], u1, u2)
                if cv is not None:
                    prop_points.append((form, u1[2], u2[2], cv[0], idx, cv[1]))
    if prop_points:
        check_proportional(ctx, dspec, comp, prop_points, delta)
    twin = case.get("twin")
    if twin:
        check_twin(ctx, case, dissim, twin, delta)
    if case.get("delta_twin") and not tag:
        check_delta_twin(ctx, case, dissim, delta)


class _Tagged:
    """Prefixes failure keys (history context) and forwards everything else to the real context."""

    def __init__(self, ctx, tag):
        self._ctx, self._tag = ctx, tag

    def fail(self, key, detail, **kw):
        self._ctx.fail(self._tag + key, detail, **kw)

    def fail_exc(self, key, exc, **kw):
        self._ctx.fail_exc(self._tag + key, exc, **kw)

    def __getattr__(self, name):
        return getattr(self._ctx, name)


def check_proportional(ctx, dspec, comp, points, delta):
    kind = dspec["kind"] if dspec["kind"] != "combined" else "combined/" + comp["kind"]
    if comp["kind"] == "levenshtein":
        # value == edit distance / normaliser(len1, len2); normaliser in {max len, max len + 1}, one choice per instance
        ok = {0: True, 1: True}
        for form, l1, l2, cv, idx, err in points:
            ctx.count("M-FORMULA")
            dist = oracles.levenshtein(l1, l2)
            for plus in (0, 1):
                norm = max(len(l1), len(l2)) + plus
                ref = dist / norm if norm else 0.0
                if not abs(cv - ref) <= 2e-5 * max(1.0, abs(ref)) + 1e-5 + err:
                    ok[plus] = False
        if not (ok[0] or ok[1]):
            ctx.fail(f"{kind}:not-the-proportional-edit-distance",
                     {"points": [(l1, l2, cv, oracles.levenshtein(l1, l2), err) for _, l1, l2, cv, _, err in points[:6]]},
                     monitor="M-FORMULA")
        return
    pos = positions_of(comp)
    k_est = None
    for form, l1, l2, cv, idx, err in points:
        ctx.count("M-FORMULA")
        dist = abs(pos[l1] - pos[l2])
        if dist == 0:
            if abs(cv) > 1e-5 + err:
                ctx.fail(f"{kind}:nonzero-for-equal-positions", {"labels": [l1, l2], "value": cv, "form": form},
                         monitor="M-FORMULA")
            continue
        k = cv / dist
        if err / dist > 0.02 * abs(k):
            continue          # this pair's categorical term is drowned in the rounding of a large positional term
        if k <= 0:
            ctx.fail(f"{kind}:not-proportional-to-position-distance", {"labels": [l1, l2], "value": cv, "distance": dist,
                                                                       "form": form}, monitor="M-FORMULA")
            continue
        if k_est is None:
            k_est = (k, l1, l2, cv, dist, (1e-5 + err) / dist)
        elif abs(k - k_est[0]) > 2e-4 * max(k, k_est[0]) + (1e-5 + err) / dist + k_est[5]:
            ctx.fail(f"{kind}:not-proportional-to-position-distance",
                     {"pair1": k_est[1:5], "k1": k_est[0], "pair2": [l1, l2, cv, dist], "k2": k, "form": form,
                      "labels_supplied": comp["cats"][:12], "p": (comp.get("p") or [])[:12]}, monitor="M-FORMULA")


def check_delta_twin(ctx, case, dissim, delta):
    """'categorical = matrix entry for the two category names * delta_empty': the same instance built with c * delta_empty
    (everything else equal) gives c times the value, whatever the normalisation of the matrix."""
    import copy
    c = case["delta_twin"]
    t = copy.deepcopy(case["dissim"])

    def scale(d):
        d["delta"] = d["delta"] * c
        if d["kind"] == "combined":
            if d.get("pos"):
                d["pos"]["delta"] = d["pos"]["delta"] * c
            if d.get("cat"):
                scale(d["cat"])
    scale(t)
    try:
        other = cases.build_dissim(t)
    except Exception as e:
        ctx.fail_exc(f"delta-twin-constructor-raises:{type(e).__name__}", e, monitor="M-DELTA-TWIN")
        return
    dspec = case["dissim"]
    comp = cat_component(dspec)
    kind = dspec["kind"] if dspec["kind"] != "combined" else "combined/" + comp["kind"]
    for idx, (u1, u2) in enumerate(case["pairs"][:8]):
        m1, m2 = measure(dissim, u1, u2, False), measure(other, u1, u2, False)
        ctx.count("M-DELTA-TWIN")
        for form in ("d", "compiled"):
            if not tol(m1[form] * c, m2[form], delta * c):
                ctx.fail(f"{kind}:value-does-not-scale-with-delta_empty", {"pair": [u1, u2], "form": form, "value": m1[form], "factor": c,
                                                                            "value_with_scaled_delta_empty": m2[form]}, monitor="M-DELTA-TWIN")
                return


def check_twin(ctx, case, dissim, twin, delta):
    """Same names in an instance built from shuffled labels and/or more categories must give the same value."""
    _, pool = ac.setup(ctx)
    try:
        other = pool.get(twin["dissim"])
    except Exception as e:
        ctx.fail_exc(f"twin-constructor-raises:{type(e).__name__}", e, monitor="M-LABEL-ORDER")
        return
    dspec = case["dissim"]
    comp = cat_component(dspec)
    kind = dspec["kind"] if dspec["kind"] != "combined" else "combined/" + comp["kind"]
    for idx, (u1, u2) in enumerate(case["pairs"][:8]):
        m1 = measure(dissim, u1, u2, False)
        m2 = measure(other, u1, u2, False)
        ctx.count("M-LABEL-ORDER")
        for form in ("d", "compiled"):
            if not tol(m1[form], m2[form], delta):
                ctx.fail(f"{kind}:value-depends-on-{twin['what']}",
                         {"pair": [u1, u2], "form": form, "value": m1[form], "twin_value": m2[form],
                          "cats": comp.get("cats", [])[:10], "twin_cats": cat_component(twin["dissim"]).get("cats", [])[:10]},
                         monitor="M-LABEL-ORDER")


# ----------------------------------------------------------------------------- generation
def many_labels(rng, k, numeric):
    if numeric:
        vals = rng.sample(range(0, 1000), k)
        return [str(v).zfill(rng.choice([1, 4])) if rng.random() < 0.5 else str(v) for v in vals]
    out = set()
    while len(out) < k:
        out.add("".join(rng.choice("abcdeXY") for _ in range(rng.randint(1, 5))))
    return sorted(out)


def gen_instance(rng, big=False):
    kinds = ["positional", "absolute", "precomputed", "levenshtein", "ordinal", "numerical", "combined"]
    d = cases.gen_dissim(rng, kinds)
    comp = cat_component(d)
    if big and comp["kind"] in ("precomputed", "levenshtein", "ordinal", "numerical"):
        k = rng.choice([128, 129, 150, 200, 257, 300])
        labels = many_labels(rng, k, comp["kind"] == "numerical")
        if comp["kind"] == "numerical":   # numeric labels must be distinct as numbers too
            seen, out = set(), []
            for l in labels:
                if float(l) not in seen:
                    seen.add(float(l))
                    out.append(l)
            labels = out
        rng.shuffle(labels)
        comp["cats"] = labels
        if comp["kind"] == "precomputed":
            comp["cats"] = sorted(labels)
            k = len(labels)
            m = [[0.0] * k for _ in range(k)]
            for i in range(k):
                for j in range(i):
                    m[i][j] = m[j][i] = rng.randrange(0, 64) / 64.0
            comp["matrix"] = m
            comp.pop("matrix_dtype", None)       # these entries are fractions: a float32 matrix
        if comp["kind"] == "ordinal":
            comp["p"] = None if rng.random() < 0.5 else [float(rng.randrange(-50, 500)) for _ in labels]
            comp.pop("p_dtype", None)      # chosen for the positions this replaces
            if comp["p"] is not None and rng.random() < 0.3:
                comp["p_dtype"] = rng.choice(["int64", "int32", "pyint"])
    return d


def make_twin(rng, dspec):
    """An instance that must give the same values for the same names."""
    import copy
    comp = cat_component(dspec)
    if comp["kind"] not in ("precomputed", "levenshtein", "ordinal", "numerical"):
        return None
    t = copy.deepcopy(dspec)
    tc = cat_component(t)
    what = "label-order"
    if tc["kind"] == "precomputed":
        # embed in a larger category set (extra names get arbitrary entries)
        extra = [c for c in ["AAA", "zzz", "M"] if c not in tc["cats"]][:rng.randint(1, 3)]
        cats = sorted(tc["cats"] + extra)
        old = sorted(tc["cats"])
        m = [[0.0] * len(cats) for _ in cats]
        for i, ci in enumerate(cats):
            for j, cj in enumerate(cats):
                if i == j:
                    continue
                if ci in old and cj in old:
                    m[i][j] = tc["matrix"][old.index(ci)][old.index(cj)]
                else:
                    m[i][j] = m[j][i] if j < i else (0.75 if tc.get("matrix_dtype") in (None, "float64") else 1.0)
        tc["cats"], tc["matrix"] = cats, m
        what = "number-of-categories"
    elif tc["kind"] == "levenshtein":
        cats = list(tc["cats"])
        rng.shuffle(cats)
        if rng.random() < 0.5:
            cats += [c for c in ["q", "qqqqqqqq"] if c not in cats]
            what = "number-of-categories"
        tc["cats"] = cats
    else:  # ordinal / numerical: permute labels and positions together
        order = list(range(len(tc["cats"])))
        rng.shuffle(order)
        if tc["kind"] == "ordinal":
            p = tc.get("p")
            if p is None:
                p = [float(i) for i in range(len(tc["cats"]))]
            tc["p"] = [p[i] for i in order]
        tc["cats"] = [tc["cats"][i] for i in order]
    return {"dissim": t, "what": what}


def gen_pairs(rng, labels, k, allow_none=False):
    if allow_none and rng.random() < 0.5:
        labels = list(labels) + [None, None]      # unlabelled units: legal for the label-free dissimilarities
    pairs = []
    fams = cases.FAMILIES
    for _ in range(k):
        fam = rng.choice([f for f in fams if f != "identical"])
        (s1, e1), (s2, e2) = cases.gen_segments(rng, fam, 2, 12)
        if rng.random() < 0.1:
            s2, e2 = s1, e1
        l1, l2 = rng.choice(labels), rng.choice(labels)
        if rng.random() < 0.2:
            l2 = l1
        pairs.append([[s1, e1, l1], [s2, e2, l2]])
    return pairs


def run(ctx):
    ac.setup(ctx)
    rng = ctx.rng
    # ---- histories that every worker runs: (1) a component of every categorical class, used before being wrapped by a
    # combined dissimilarity with ANOTHER delta_empty; (2) several default-component combined dissimilarities with
    # different delta_empty alive at the same time (each older one is measured again after the next was built)
    block = []
    for kind in ("precomputed", "levenshtein", "ordinal", "numerical", "absolute"):
        comp = cases.gen_dissim(rng, [kind])
        d = rng.choice([x for x in cases.DELTAS if x != comp["delta"]])
        block.append({"kind": "combined", "alpha": rng.choice([0.5, 1.0, 3.0]), "beta": rng.choice([0.5, 1.0, 3.0]), "delta": d,
                      "pos": None if rng.random() < 0.5 else {"delta": rng.choice(cases.DELTAS)}, "cat": comp})
    for d in rng.sample(cases.DELTAS, 3):
        block.append({"kind": "combined", "alpha": 1.0, "beta": rng.choice([1.0, 2.0]), "delta": d, "pos": None, "cat": None})
    for kind in ("precomputed", "levenshtein", "ordinal", "numerical", "absolute", "positional"):     # (0) every class: values scale with delta_empty
        dspec = cases.gen_dissim(rng, [kind])
        labels = cases.dissim_labels(dspec) or cases.LABELS_SMALL
        case = {"dissim": dspec, "pairs": gen_pairs(rng, labels, 10), "delta_twin": rng.choice([2.0, 0.5, 4.0])}
        ctx.begin_case(case)
        ctx.observe("class", "delta-twin-block/" + kind)
        check_case(ctx, case)
    for dspec in block:
        labels = cases.dissim_labels(dspec) or cases.LABELS_SMALL + ["Noun", "10"]
        case = {"dissim": dspec, "pairs": gen_pairs(rng, labels, 14), "pre_use": True}
        ctx.begin_case(case)
        ctx.observe("class", "history-block/" + cat_component(dspec)["kind"])
        check_case(ctx, case)
    # (3) ONE component object shared by two combined dissimilarities with different delta_empty
    for kind in ("precomputed", "levenshtein", "ordinal", "numerical", "absolute", None):
        comp = cases.gen_dissim(rng, [kind]) if kind else None
        d1, d2 = rng.sample(cases.DELTAS, 2)
        pos = {"delta": rng.choice(cases.DELTAS)} if (kind is None or rng.random() < 0.5) else None
        a_spec = {"kind": "combined", "alpha": rng.choice([0.5, 1.0, 3.0]), "beta": rng.choice([0.5, 1.0, 3.0]), "delta": d1, "pos": pos, "cat": comp}
        b_spec = dict(a_spec, delta=d2, alpha=rng.choice([0.5, 1.0]), beta=rng.choice([1.0, 3.0]))
        labels = cases.dissim_labels(a_spec) or cases.LABELS_SMALL + ["Noun", "10"]
        case = {"dissim": a_spec, "dissim_b": b_spec, "pairs": gen_pairs(rng, labels, 12)}
        ctx.begin_case(case)
        ctx.observe("class", "shared-component/" + (kind or "positional-only"))
        check_case(ctx, case)
    # (4) one label-free dissimilarity object computing candidate tables for continua with different category sets, from
    # several user threads at once (what compute_gamma's own pool does with the chance samples)
    for _ in range(ctx.scale(5, 60)):
        case = ac.gen_concurrent_candidates_case(rng)
        ctx.begin_case(case)
        ctx.observe("class", "concurrent-threads/" + case["dissim"]["kind"])
        check_case(ctx, case)
    n_inst = ctx.scale(40, 800)
    for i in range(n_inst):
        if ctx.out_of_time():
            break
        big = (i % 8 == 3)
        dspec = gen_instance(rng, big=big)
        free = cases.dissim_labels(dspec) is None
        labels = cases.dissim_labels(dspec) or cases.LABELS_SMALL + ["Noun", "10"]
        case = {"dissim": dspec, "pairs": gen_pairs(rng, labels, rng.randint(12, 24), allow_none=free), "pre_use": rng.random() < 0.5}
        if rng.random() < 0.6:
            tw = make_twin(rng, dspec)
            if tw:
                case["twin"] = tw
        if rng.random() < 0.5:
            case["delta_twin"] = rng.choice([2.0, 0.5, 4.0, 3.0, 0.25])
        ctx.begin_case(case)
        comp = cat_component(dspec)
        ctx.observe("class", dspec["kind"] if dspec["kind"] != "combined" else "combined/" + comp["kind"])
        ctx.observe("n_categories_bucket", _bucket(len(comp.get("cats", []))))
        ctx.observe("delta", dspec["delta"])
        if dspec["kind"] == "combined":
            ctx.observe("alpha_beta", f"{dspec['alpha']}/{dspec['beta']}")
            ctx.observe("component_delta", "pos:%s cat:%s" % (
                "default" if dspec.get("pos") is None else ("same" if dspec["pos"]["delta"] == dspec["delta"] else "other"),
                "default" if dspec.get("cat") is None else ("same" if dspec["cat"]["delta"] == dspec["delta"] else "other")))
        if comp["kind"] in ("ordinal", "levenshtein", "numerical"):
            ctx.observe("labels_supplied_sorted", comp["cats"] == sorted(comp["cats"]))
        check_case(ctx, case)
        # the pool (twins) would otherwise keep hundreds of compiled kernels alive
        _, pool = ac.setup(ctx)
        if len(pool) > 60:
            pool._cache.clear()


def _bucket(k):
    for b in (0, 1, 2, 6, 127, 128, 200, 300):
        if k <= b:
            return f"<={b}"
    return ">300"
