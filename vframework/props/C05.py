"""C05 - gamma = 1 - observed/expected over exactly the requested chance samples."""
import contextlib
import math

import numpy as np

from .. import cases, monitors, oracles
from . import _align_common as ac

TITLE = "Gamma is 1 - observed/expected over the requested chance samples"
DECIDING = ["M-GAMMA-AFTER-EDIT", "M-GAMMA", "M-GAMMA-COUNT", "M-GAMMA-SAMPLE", "M-GAMMA-RECOMPUTE", "M-GAMMA-IDENTICAL", "M-GAMMA-SESSION", "M-GAMMA-CONCURRENT"]
LEVEL = "exploration"
RULE = ("seeded random small continua (2-4 annotators, labelled) x n_samples 1..40 x precision (none / numeric chosen "
        "so that N_required falls below, on and above n_samples / named levels when affordable) x sampler "
        "(statistical, shuffle int/float pivot) x ground-truth subsets (>= 2; handed over as list, tuple, set, sorted set, dict view or generator) x mode (exact, fast, soft); a counting "
        "proxy around the sampler records a content snapshot of every sample handed out; the post-condition M-GAMMA "
        "checks observed disorder, number of chance alignments, draws == alignments kept, alignment i built on the "
        "i-th sample drawn (content), samples valid, each chance alignment recomputed in the "
        "same mode on its own sample, mean, gamma, gamma <= 1; plus continua of identical annotators (gamma == 1); plus sessions in which ONE sampler object and one "
        "continuum object serve 2-3 computations with different ground-truth subsets, modes and sample counts; two "
        "default-sampler computations running concurrently in two user threads on disjoint continua; first batches of "
        "257-520 samples with a precision level; sessions with an edit of the continuum object (add_annotator, merge of a unit-less annotator, add, remove, "
        "reset_bounds) between two computations; a quarter of the computations run with cylp not importable or with CBC failing (always / every "
        "third call) while every alignment is recomputed afterwards under the normal configuration; a fifth of the computations with a precision level run with the library's progress messages switched on and a log handler that takes 2 - 30 ms per record; one case in seven has one alignment job of the "
        "computation find no usable solver at all (a refusal is accepted, a reported gamma is judged like any other). "
        "non-trivial = every case (>= 1 sample); distinct by SHA-1 of the case")
ASSUMPTIONS = [
    "N_required is recomputed in float64 from the first n_samples chance disorders; any count between the ceilings of "
    "the value scaled by (1 -/+ 1e-4) is accepted (ceil is discontinuous; the library works in float32)",
    "if the first n_samples chance disorders have mean 0 the coefficient of variation is undefined: only 'no fewer than "
    "n_samples' is required",
    "named precision levels are resolved through the module's own table (the statement fixes the formula, not the table)",
    "sample identity is by content (a refactoring that copies samples is not an alarm); two independent draws coincide "
    "with probability ~0",
    "when a result holds more than 20 (quick) / 48 (thorough) chance alignments a random subset of 12 / 40 is recomputed",
    "pairwise distinctness of the samples is recorded but not required (int pivots and degenerate laws may repeat)",
    "tolerance |a-b| <= 2e-5*max(1,|a|,|b|)",
]


def plan(tier, seed):
    return ac.std_plan(tier, quick_budget=50, thorough_budget=800)


def content(c):
    return tuple((a, tuple((u.segment.start, u.segment.end, u.annotation) for u in c._annotations[a]))
                 for a in c._annotations.keys())


_proxies = {}


def counting_sampler(kind):
    """Proxy subclass of the real sampler recording a snapshot of every sample it hands out, in order."""
    import pygamma_agreement as pa
    if "stat" not in _proxies:
        class CountingStatistical(pa.StatisticalContinuumSampler):
            handed = None

            @property
            def sample_from_continuum(self):
                s = super().sample_from_continuum
                self.handed.append(content(s))
                return s

        class CountingShuffle(pa.ShuffleContinuumSampler):
            handed = None

            @property
            def sample_from_continuum(self):
                s = super().sample_from_continuum
                self.handed.append(content(s))
                return s
        _proxies["stat"], _proxies["shuffle"] = CountingStatistical, CountingShuffle
    if kind == "statistical":
        s = _proxies["stat"]()
    else:
        s = _proxies["shuffle"](pivot_type="int_pivot" if kind == "shuffle_int" else "float_pivot")
    s.handed = []
    return s


def align_in_mode(continuum, dissim, mode, window=None):
    """`window`: the window size measured on the INPUT continuum - in fast mode the chance alignments are "the same kind of
    alignment" as the observed one, i.e. windowed with that size (inf = the input was too small: exact alignments)."""
    if mode == "soft":
        return continuum.get_best_soft_alignment(dissim)
    w = continuum.best_window_size if window is None else window
    if mode == "fast" and w != np.inf:
        return continuum.get_fast_alignment(dissim, w)
    return continuum.get_best_alignment(dissim)


def n_required_range(first, precision):
    first = np.asarray(first, dtype=np.float64)
    mean = first.mean()
    if mean == 0 or not math.isfinite(mean):
        return None
    cv = first.std() / mean
    v = (cv * 1.96 / precision) ** 2
    return int(math.ceil(v * (1 - 1e-4))), int(math.ceil(v * (1 + 1e-4))), v


def check_gamma(ctx, case, continuum, dissim, sampler, res, gt):
    """The M-GAMMA post-condition at the compute_gamma boundary."""
    import pygamma_agreement.continuum as pc
    mode = case["mode"]
    n = case["n_samples"]
    handed = sampler.handed
    ctx.count("M-GAMMA")
    # ---- observed disorder = requested-mode alignment of the input
    if content(res.best_alignment.continuum) != content(continuum):
        ctx.fail("observed-alignment-not-on-the-input-continuum", {}, monitor="M-GAMMA")
    pr = monitors.check_partition(continuum, res.best_alignment, cover=(mode == "soft"))
    if pr:
        ctx.fail(f"{mode}:observed-alignment-invalid", {"problems": pr}, monitor="M-GAMMA")
    try:
        again = align_in_mode(continuum, dissim, mode)
        if not oracles.close(float(res.observed_disorder), float(again.disorder)):
            ctx.fail(f"{mode}:observed-disorder-not-the-requested-mode-alignment",
                     {"observed": float(res.observed_disorder), "recomputed": float(again.disorder)}, monitor="M-GAMMA")
    except Exception as e:
        ctx.fail_exc(f"{mode}:recompute-observed-raises:{type(e).__name__}", e, monitor="M-GAMMA")
    # ---- number of chance alignments
    chance = list(res.chance_alignments)
    dis = [float(a.disorder) for a in chance]
    ctx.count("M-GAMMA-COUNT")
    prec = case["precision"]
    if isinstance(prec, str):
        prec = pc.PRECISION_LEVEL[prec]
    elif prec is not None and (case.get("arg_types") or {}).get("precision") == "float32":
        prec = float(np.float32(prec))
    detail = {"n_samples": n, "precision": case["precision"], "chance_alignments": len(chance), "draws": len(handed)}
    if res.n_samples != len(chance):
        ctx.fail("n_samples-property-differs-from-chance-alignments", detail, monitor="M-GAMMA-COUNT")
    if prec is None:
        if len(chance) != n:
            ctx.fail("wrong-number-of-chance-alignments:no-precision", detail, monitor="M-GAMMA-COUNT")
        ctx.observe("count_relation", "no-precision")
    elif len(chance) < n:
        ctx.fail("fewer-chance-alignments-than-n_samples", detail, monitor="M-GAMMA-COUNT")
    else:
        rng_ = n_required_range(dis[:n], prec)
        if rng_ is None:
            ctx.observe("count_relation", "cv-undefined")
        else:
            lo, hi, v = rng_
            detail.update({"N_required_value": v, "accepted": [max(n, lo), max(n, hi)]})
            ctx.observe("count_relation", "N<=n" if hi <= n else ("N>n" if lo > n else "N~n"))
            if not (max(n, lo) <= len(chance) <= max(n, hi)):
                ctx.fail("wrong-number-of-chance-alignments:precision", detail, monitor="M-GAMMA-COUNT")
    # ---- draws == alignments kept; alignment i is on the i-th sample drawn; samples distinct and valid
    ctx.count("M-GAMMA-SAMPLE")
    if len(handed) != len(chance):
        ctx.fail("sampler-draws-differ-from-alignments-kept", detail, monitor="M-GAMMA-SAMPLE")
    for i, a in enumerate(chance[:len(handed)]):
        if a.continuum is None or content(a.continuum) != handed[i]:
            ctx.fail("chance-alignment-not-on-the-ith-sample-drawn", {"i": i, **detail}, monitor="M-GAMMA-SAMPLE")
            break
    # (two draws may legitimately coincide for discrete or degenerate sampling laws: observed, not judged)
    ctx.observe("all_samples_distinct", len(set(handed)) == len(handed))
    ref_ann = {a: sorted((round(u.segment.duration, 6), u.annotation) for u in continuum._annotations[a]) for a in gt}
    for i, snap in enumerate(handed):
        names = [a for a, _ in snap]
        total = sum(len(us) for _, us in snap)
        bad = None
        if total == 0:
            bad = "empty sample"
        elif case["sampler"] == "statistical":
            if sorted(names) != sorted(gt):
                bad = f"annotators {names} != ground truth {sorted(gt)}"
        else:
            if len(names) != len(gt):
                bad = f"{len(names)} annotators for {len(gt)} ground-truth annotators"
            else:
                for a, us in snap:
                    sig = sorted((round(e - s, 6), l) for s, e, l in us)
                    if sig not in ref_ann.values():
                        bad = f"sampled annotator {a} is not a translated copy of a ground-truth annotator"
                        break
        if bad:
            ctx.fail("invalid-sample:" + bad.split(" ")[0], {"i": i, "problem": bad}, monitor="M-GAMMA-SAMPLE")
            break
    # ---- every chance alignment is the requested-mode alignment of its own sample
    idx = list(range(len(chance)))
    cap = 12 if ctx.tier == "quick" else 40
    if len(idx) > cap + 8:
        idx = sorted(ctx.rng.sample(idx, cap))
    for i in idx:
        a = chance[i]
        if a.continuum is None:
            continue
        ctx.count("M-GAMMA-RECOMPUTE")
        pr = monitors.check_partition(a.continuum, a, cover=(mode == "soft"))
        if pr:
            ctx.fail(f"{mode}:chance-alignment-invalid", {"i": i, "problems": pr}, monitor="M-GAMMA-RECOMPUTE")
            continue
        try:
            again = align_in_mode(a.continuum, dissim, mode, window=continuum.best_window_size)
            if mode == "fast":
                ctx.observe("fast_chance_recomputed_with_window", "finite" if continuum.best_window_size != np.inf else "inf")
        except Exception as e:
            ctx.fail_exc(f"{mode}:recompute-chance-raises:{type(e).__name__}", e, monitor="M-GAMMA-RECOMPUTE")
            continue
        if not oracles.close(float(a.disorder), float(again.disorder)):
            ctx.fail(f"{mode}:chance-disorder-not-the-requested-mode-alignment-of-its-sample",
                     {"i": i, "stored": float(a.disorder), "recomputed": float(again.disorder)}, monitor="M-GAMMA-RECOMPUTE")
    # ---- expected, gamma
    if dis:
        mean = float(np.mean(np.asarray(dis, dtype=np.float64)))
        exp = float(res.expected_disorder)
        if not oracles.close(exp, mean):
            ctx.fail("expected-disorder-not-the-mean", {"expected": exp, "mean": mean}, monitor="M-GAMMA")
        obs = float(res.observed_disorder)
        g = float(res.gamma)
        want = 1.0 if obs == 0 else (1 - obs / mean if mean != 0 else None)
        if want is not None and not oracles.close(g, want, rel=1e-4):
            ctx.fail("gamma-not-1-minus-observed-over-expected", {"gamma": g, "observed": obs, "expected": mean}, monitor="M-GAMMA")
        if g > 1 + 1e-6:
            ctx.fail("gamma-exceeds-1", {"gamma": g}, monitor="M-GAMMA")
        if case.get("identical"):
            ctx.count("M-GAMMA-IDENTICAL")
            if not oracles.close(g, 1.0):
                ctx.fail("gamma-not-1-for-identical-annotators", {"gamma": g, "observed": obs}, monitor="M-GAMMA-IDENTICAL")


@contextlib.contextmanager
def _slow_logging(delay):
    """The application has switched the library's progress messages on (INFO) and its log handler is slow (a file on a network
    share, a GUI console): every record costs `delay` seconds in the thread that emits it."""
    if not delay:
        yield
        return
    import logging
    import time as _t

    class Slow(logging.Handler):
        def emit(self, record):
            _t.sleep(delay)
    root = logging.getLogger()
    h, old = Slow(level=logging.INFO), root.level
    root.addHandler(h)
    root.setLevel(logging.INFO)
    try:
        yield
    finally:
        root.removeHandler(h)
        root.setLevel(old)


def _gt_form(gt, form):
    """The ground-truth annotators in one of the forms an 'iterable of annotators' can take."""
    gt = list(gt)
    if form == "tuple":
        return tuple(gt)
    if form == "set":
        return set(gt)
    if form == "generator":
        return (a for a in gt)
    if form == "keys":
        return dict.fromkeys(gt).keys()
    if form == "sortedset":
        from sortedcontainers import SortedSet
        return SortedSet(gt)
    if form == "reversed":
        return gt[::-1]
    return gt


def run_gamma(case, continuum, dissim, precision):
    sampler = counting_sampler(case["sampler"])
    gt = case.get("ground_truth")
    np.random.seed(case["np_seed"])
    # argument-type variants the API accepts: numpy scalars for the precision, None / 0 / 1 / numpy bools for the switches
    at = case.get("arg_types") or {}
    if precision is not None and not isinstance(precision, str):
        precision = {"float32": np.float32, "float64": np.float64}.get(at.get("precision"), float)(precision)
    elif isinstance(precision, str):
        precision = "".join(list(precision))     # a name read at run time: equal to the literal, not the same object
    off = {"none": None, "zero": 0, "npbool": np.bool_(False)}.get(at.get("off"), False)
    on = {"one": 1, "npbool": np.bool_(True)}.get(at.get("on"), True)
    # solver configuration in force during the computation (cylp not importable / CBC failing always or now and then); the
    # post-condition recomputes every alignment afterwards under the normal configuration
    with ac.solver_config(ac.setup(None)[0], case.get("backend", "cbc")), _slow_logging(case.get("slow_logging")):
        res = continuum.compute_gamma(dissim, n_samples=case["n_samples"], precision_level=precision,
                                      ground_truth_annotators=None if gt is None else _gt_form(gt, at.get("gt")), sampler=sampler,
                                      fast=on if case["mode"] == "fast" else off, soft=on if case["mode"] == "soft" else off)
    return res, sampler


def check_session(ctx, case):
    """ONE sampler object and one continuum object reused for several gamma computations with different ground-truth
    subsets / modes: every computation must obey the statement on its own."""
    _, pool = ac.setup(ctx)
    cspec = case["continuum"]
    dissim = pool.get(case["dissim"])
    continuum = cases.build_continuum(cspec)
    sampler = counting_sampler(case["sampler"])
    for k, call in enumerate(case["session"]):
        sub = dict(case, **call)
        if call.get("edit"):
            # the continuum object is edited between two computations (same dissimilarity object, maybe the same mode)
            try:
                ac.apply_edit(continuum, call["edit"])
            except Exception as e:
                ctx.fail_exc(f"session:edit-raises:{type(e).__name__}", e, monitor="harness")
                return
            ctx.count("M-GAMMA-AFTER-EDIT")
        gt = call.get("ground_truth") or sorted(continuum.annotators)
        gt = [a for a in gt if a in continuum.annotators]
        if sum(1 for a in gt if len(continuum._annotations[a])) < 1 or len(gt) < 2:
            continue
        sampler.handed = []
        ctx.count("M-GAMMA-SESSION")
        try:
            np.random.seed(call["np_seed"])
            res = continuum.compute_gamma(dissim, n_samples=call["n_samples"], precision_level=call["precision"],
                                          ground_truth_annotators=None if call.get("ground_truth") is None else list(call["ground_truth"]),
                                          sampler=sampler, fast=call["mode"] == "fast", soft=call["mode"] == "soft")
        except Exception as e:
            ctx.fail_exc(f"session:compute_gamma-raises:{type(e).__name__}", e, monitor="M-GAMMA")
            return
        before = dict(ctx.fail_counts)
        check_gamma(ctx, sub, continuum, dissim, sampler, res, gt)
        if dict(ctx.fail_counts) != before:
            ctx.observe("session_failure_at_call", k)
            return


def check_concurrent(ctx, case):
    """Two gamma computations with the DEFAULT sampler running at the same time in two user threads, on continua with
    disjoint annotators and categories: each must still be made of its own ground-truth annotators and categories."""
    import threading
    _, pool = ac.setup(ctx)
    dissim = pool.get(case["dissim"])
    conts = [cases.build_continuum(cs) for cs in case["continua"]]
    results, errors = [None, None], [None, None]
    barrier = threading.Barrier(2)

    def work(i):
        try:
            barrier.wait(timeout=30)
            results[i] = conts[i].compute_gamma(dissim, n_samples=case["n_samples"], precision_level=None)
        except Exception as e:   # noqa
            errors[i] = e
    np.random.seed(case["np_seed"])
    ts = [threading.Thread(target=work, args=(i,)) for i in range(2)]
    [t.start() for t in ts]
    [t.join() for t in ts]
    ctx.count("M-GAMMA-CONCURRENT")
    for i in range(2):
        if errors[i] is not None:
            ctx.fail(f"concurrent:compute_gamma-raises:{type(errors[i]).__name__}", {"message": str(errors[i])[:300]}, monitor="M-GAMMA")
            continue
        res = results[i]
        own = sorted(case["continua"][i]["ann"].keys())
        labels = set(cases.spec_labels(case["continua"][i]))
        if len(res.chance_alignments) != case["n_samples"]:
            ctx.fail("concurrent:wrong-number-of-chance-alignments", {"got": len(res.chance_alignments), "n_samples": case["n_samples"]},
                     monitor="M-GAMMA-COUNT")
        for k, al in enumerate(res.chance_alignments):
            anns = sorted(al.continuum.annotators)
            labs = {u.annotation for _, u in al.continuum}
            if anns != own or not labs <= labels:
                ctx.fail("concurrent:chance-sample-not-made-of-its-own-ground-truth", {"sample": k, "annotators": anns, "expected": own,
                                                                                     "foreign_labels": sorted(map(str, labs - labels))},
                         monitor="M-GAMMA-SAMPLE")
                break
            again = al.continuum.get_best_alignment(dissim)
            if not oracles.close(float(al.disorder), float(again.disorder)):
                ctx.fail("concurrent:chance-disorder-not-the-alignment-of-its-sample", {"sample": k}, monitor="M-GAMMA-RECOMPUTE")
                break
        mean = float(np.mean([float(a.disorder) for a in res.chance_alignments]))
        if not oracles.close(float(res.expected_disorder), mean):
            ctx.fail("concurrent:expected-disorder-not-the-mean", {}, monitor="M-GAMMA")


def check_case(ctx, case):
    if "continua" in case:
        return check_concurrent(ctx, case)
    if "session" in case:
        return check_session(ctx, case)
    _, pool = ac.setup(ctx)
    cspec, dspec = case["continuum"], case["dissim"]
    dissim = pool.get(dspec)
    continuum = cases.build_continuum(cspec)
    gt = case.get("ground_truth") or sorted(cspec["ann"].keys())
    if case["precision"] == "auto":
        # numeric precision chosen from a dry run with the same seed so that N_required lands near a target
        try:
            dry, _ = run_gamma(case, continuum, dissim, None)
            first = np.asarray([float(a.disorder) for a in dry.chance_alignments], dtype=np.float64)
            cv = first.std() / first.mean() if first.mean() else 0.0
        except Exception as e:
            if str(case.get("backend", "")).startswith("onejobfails"):
                ctx.observe("one_job_without_solver", "refused:" + type(e).__name__)
                return
            ctx.fail_exc(f"compute_gamma-raises:{type(e).__name__}", e, monitor="M-GAMMA")
            return
        target = case["target_N"]
        if cv <= 0 or not math.isfinite(cv):
            case = dict(case, precision=0.05)
        else:
            p = 1.96 * cv / math.sqrt(target)
            case = dict(case, precision=float(min(0.99, max(0.004, p))))
        continuum = cases.build_continuum(cspec)
    try:
        res, sampler = run_gamma(case, continuum, dissim, case["precision"])
    except Exception as e:
        if str(case.get("backend", "")).startswith("onejobfails"):
            # one alignment job had no usable solver: refusing to report a gamma is a right answer; a gamma that IS reported is
            # judged like any other (in particular it holds the number of chance alignments it was asked for)
            ctx.observe("one_job_without_solver", "refused:" + type(e).__name__)
            return
        ctx.fail_exc(f"compute_gamma-raises:{type(e).__name__}", e, monitor="M-GAMMA")
        return
    if str(case.get("backend", "")).startswith("onejobfails"):
        ctx.observe("one_job_without_solver", "a gamma was reported (judged like any other)")
    ctx.observe("chance_alignments_bucket", _bucket(len(res.chance_alignments)))
    check_gamma(ctx, case, continuum, dissim, sampler, res, gt)


def _bucket(n):
    for b in (1, 2, 5, 10, 20, 40, 80, 160, 400, 1000, 3000):
        if n <= b:
            return f"<={b}"
    return ">3000"


def gen_case(ctx, dspecs):
    rng = ctx.rng
    dspec = rng.choice(dspecs)
    labels = cases.dissim_labels(dspec) or cases.LABELS_SMALL
    n = rng.choice([2, 2, 3, 3, 4])
    identical = rng.random() < 0.12
    if identical:
        base = cases.gen_continuum(rng, n_annot=1, max_units=5, allow_empty=False, labels=labels,
                                   family=rng.choice(["grid", "dyadic", "touching", "generic"]), names=["x"])
        cspec = {"ann": {name: [list(u) for u in base["ann"]["x"]] for name in cases.ANNOTATOR_NAMES[:n]},
                 "family": "identical-annotators"}
    else:
        cspec = cases.gen_continuum(rng, n_annot=n, max_units={2: 6, 3: 4, 4: 3}[n], allow_empty=False, labels=labels,
                                    family=rng.choice(["grid", "dyadic", "touching", "generic", "longoverlap", "nested", "offset"]))
    names = sorted(cspec["ann"].keys())
    gt = None
    if n >= 3 and rng.random() < 0.4:
        gt = sorted(rng.sample(names, rng.randint(2, n)))
    n_samples = rng.choice([1, 2, 3, 5, 8, 13, 20, 30, 40] if ctx.tier == "thorough" else [1, 2, 3, 3, 5, 5, 8, 13, 20, 30])
    r = rng.random()
    if r < 0.3:
        precision, target = None, None
    elif r < 0.8:
        precision = "auto"
        target = max(1.0, n_samples * rng.choice([0.3, 0.9, 0.99, 1.0, 1.01, 1.3, 2.5, 5.0]))
    elif r < 0.93:
        precision, target = rng.choice([0.3, 0.2, 0.1]), None
    else:
        precision, target = rng.choice(["low", "low", "medium"]), None
    case = {"continuum": cspec, "dissim": dspec, "n_samples": n_samples, "precision": precision,
            "sampler": rng.choice(["statistical", "shuffle_int", "shuffle_float"]),
            "mode": rng.choice(["exact", "exact", "fast", "soft"]), "ground_truth": gt,
            "np_seed": rng.randrange(2 ** 31), "identical": identical}
    if target:
        case["target_N"] = target
    if precision is not None and rng.random() < 0.2:
        case["slow_logging"] = rng.choice([0.002, 0.01, 0.03])
    case["backend"] = rng.choice(["cbc", "cbc", "cbc", "glpk", "cbcfail", "cbcfail3", "onejobfails" + str(rng.randint(2, 4))])
    case["arg_types"] = {"precision": rng.choice(["float", "float", "float64", "float32"]),
                         "off": rng.choice(["false", "false", "none", "zero", "npbool"]), "on": rng.choice(["true", "true", "one", "npbool"]),
                         "gt": rng.choice(["list", "list", "tuple", "set", "generator", "keys", "sortedset", "reversed"])}
    if n >= 3 and rng.random() < 0.35:
        # session: the same sampler and continuum objects serve several computations
        calls = []
        for _ in range(rng.randint(2, 3)):
            calls.append({"ground_truth": rng.choice([None, sorted(rng.sample(names, rng.randint(2, n)))]),
                          "n_samples": rng.choice([1, 2, 4, 6]), "precision": rng.choice([None, None, 0.5]),
                          "mode": rng.choice(["exact", "fast", "soft"]), "np_seed": rng.randrange(2 ** 31)})
        if rng.random() < 0.6 and not identical:
            # edits of the continuum object between the calls; afterwards the same mode as before, no ground-truth subset
            ops = ac.gen_edit_ops(rng, cspec, cases.dissim_labels(dspec) or cases.LABELS_SMALL, len(calls) - 1)
            for c_prev, c_next, op in zip(calls, calls[1:], ops):
                if op[0] in ("touch_far",):
                    continue
                c_next["edit"] = op
                c_next["ground_truth"] = None
                if rng.random() < 0.7:
                    c_next["mode"] = c_prev["mode"]
        case = {"continuum": cspec, "dissim": dspec, "sampler": case["sampler"], "session": calls, "identical": identical}
    return case


def run(ctx):
    ac.setup(ctx)
    rng = ctx.rng
    dspecs = cases.gen_pool_specs(rng, ctx.scale(8, 20), kinds=["combined", "combined", "positional", "absolute",
                                                                 "levenshtein", "precomputed"])
    dspecs.append({"kind": "positional", "delta": 1.0})
    dspecs.append({"kind": "combined", "alpha": 1.0, "beta": 1.0, "delta": 1.0, "pos": None, "cat": None})
    # deciding monitors first, whatever the time budget: identical annotators; one sampler object serving two computations
    base0 = cases.gen_continuum(rng, n_annot=1, max_units=4, allow_empty=False, labels=cases.LABELS_SMALL, family="grid", names=["x"])
    ident = {"ann": {n_: [list(u) for u in base0["ann"]["x"]] for n_ in cases.ANNOTATOR_NAMES[:3]}, "family": "identical-annotators"}
    pos0 = {"kind": "positional", "delta": 1.0}
    for case in ({"continuum": ident, "dissim": pos0, "n_samples": 4, "precision": None, "sampler": "statistical", "mode": "exact",
                  "ground_truth": None, "np_seed": 11, "identical": True},
                 {"continuum": ident, "dissim": pos0, "sampler": "shuffle_float", "identical": True,
                  "session": [{"ground_truth": None, "n_samples": 3, "precision": None, "mode": "exact", "np_seed": 5},
                              {"ground_truth": cases.ANNOTATOR_NAMES[:2], "n_samples": 2, "precision": None, "mode": "soft", "np_seed": 6}]}):
        ctx.begin_case(case)
        ctx.observe("mode", "deterministic-first-block")
        check_case(ctx, case)
    # ... and the forms in which the arguments arrive: a numpy float32 precision that calls for a second batch; the
    # fast / soft switches as 1 / numpy bools / None
    comb0 = {"kind": "combined", "alpha": 1.0, "beta": 1.0, "delta": 1.0, "pos": None, "cat": None}
    for k0, (mode, at) in enumerate([("exact", {"precision": "float32", "off": "npbool"}), ("soft", {"on": "npbool", "off": "none"}),
                                     ("soft", {"on": "one", "off": "zero"}), ("fast", {"on": "one", "off": "npbool", "precision": "float32"})]):
        cs0 = cases.gen_continuum(rng, n_annot=3, sizes=[4, 3, 4], family="longoverlap", labels=cases.LABELS_SMALL)
        case = {"continuum": cs0, "dissim": comb0, "n_samples": 4, "precision": "auto", "target_N": 11.0, "sampler": "statistical",
                "mode": mode, "ground_truth": None, "np_seed": 21 + k0, "identical": False, "arg_types": at}
        ctx.begin_case(case)
        ctx.observe("mode", "deterministic-first-block(argument forms)")
        check_case(ctx, case)
    # ... a continuum object edited between two computations with the same dissimilarity object and mode
    for k0, (mode0, op0) in enumerate([("exact", ["add_annotator", "zoe"]), ("soft", ["merge_empty_annotator", "yan"]), ("fast", ["add_annotator", "abe"]),
                                       ("exact", ["add", "alex", 3.0, 6.0, "b"])]):
        cs0 = cases.gen_continuum(rng, n_annot=2, sizes=[3, 3], family="grid", labels=cases.LABELS_SMALL, names=["alex", "bob"])
        case = {"continuum": cs0, "dissim": comb0, "sampler": "shuffle_float", "identical": False,
                "session": [{"ground_truth": None, "n_samples": 2, "precision": None, "mode": mode0, "np_seed": 51 + k0},
                            {"ground_truth": None, "n_samples": 2, "precision": None, "mode": mode0, "np_seed": 61 + k0, "edit": op0}]}
        ctx.begin_case(case)
        ctx.observe("mode", "deterministic-first-block(edit between two computations)")
        check_case(ctx, case)
    # ... progress messages switched on with a slow log handler, together with a precision level
    for k0 in range(2):
        cs0 = cases.gen_continuum(rng, n_annot=3, sizes=[3, 4, 3], family="grid", labels=cases.LABELS_SMALL)
        case = {"continuum": cs0, "dissim": comb0, "n_samples": 8, "precision": "auto", "target_N": 14.0, "sampler": ["statistical", "shuffle_float"][k0],
                "mode": "exact", "ground_truth": None, "np_seed": 81 + k0, "identical": False, "slow_logging": 0.03}
        ctx.begin_case(case)
        ctx.observe("mode", "deterministic-first-block(slow log handler)")
        check_case(ctx, case)
    # ... one alignment job of the computation finds no usable solver (no precision level: nothing may be topped up silently)
    for k0 in range(4):
        cs0 = cases.gen_continuum(rng, n_annot=3, sizes=[3, 4, 3], family="grid", labels=cases.LABELS_SMALL)
        case = {"continuum": cs0, "dissim": comb0, "n_samples": 6, "precision": None, "sampler": ["statistical", "shuffle_float"][k0 % 2],
                "mode": ["exact", "soft"][k0 // 2], "ground_truth": None, "np_seed": 71 + k0, "identical": False, "backend": f"onejobfails{3 + k0}"}
        ctx.begin_case(case)
        ctx.observe("mode", "deterministic-first-block(one job without a usable solver)")
        check_case(ctx, case)
    # ... the ground-truth annotators as a generator / set / dict view (an 'iterable of annotators')
    for k0, form in enumerate(["generator", "set", "keys", "reversed"]):
        cs0 = cases.gen_continuum(rng, n_annot=3, sizes=[3, 3, 2], family="grid", labels=cases.LABELS_SMALL)
        names0 = sorted(cs0["ann"].keys())
        case = {"continuum": cs0, "dissim": comb0, "n_samples": 3, "precision": None, "sampler": ["statistical", "shuffle_float"][k0 % 2],
                "mode": "exact", "ground_truth": [names0[2], names0[0]] if k0 < 3 else names0, "np_seed": 41 + k0, "identical": False,
                "arg_types": {"gt": form}}
        ctx.begin_case(case)
        ctx.observe("mode", "deterministic-first-block(argument forms)")
        check_case(ctx, case)
    # ... and fast mode on inputs large enough for a finite window: every chance alignment must be windowed like the observed one
    for k0 in range(ctx.scale(2, 12)):
        cs0 = cases.gen_continuum(rng, n_annot=4, sizes=[14] * 4, family="grid", labels=cases.LABELS_SMALL)
        case = {"continuum": cs0, "dissim": comb0, "n_samples": 4, "precision": None, "sampler": rng.choice(["statistical", "shuffle_float"]),
                "mode": "fast", "ground_truth": None, "np_seed": 31 + k0, "identical": False}
        ctx.begin_case(case)
        ctx.observe("mode", "deterministic-first-block(fast, finite window)")
        check_case(ctx, case)
    label_free = [d for d in dspecs if cases.dissim_labels(d) is None]
    for i in range(ctx.scale(3, 30)):
        a = cases.gen_continuum(rng, n_annot=rng.randint(2, 3), max_units=4, allow_empty=False, labels=["l1", "l2"], names=["left_0", "left_1", "left_2"][:3])
        b = cases.gen_continuum(rng, n_annot=2, max_units=4, allow_empty=False, labels=["r1", "r2", "r3"], names=["right_0", "right_1"])
        a["ann"] = {k: v for k, v in list(a["ann"].items())}
        case = {"continua": [a, b], "dissim": rng.choice(label_free), "n_samples": rng.choice([10, 20, 40]), "np_seed": rng.randrange(2 ** 31)}
        ctx.begin_case(case)
        ctx.observe("mode", "two-concurrent-default-sampler-computations")
        check_case(ctx, case)
    # large first batches (the whole range of n_samples is quantified over): a tiny continuum keeps them affordable
    for i in range(ctx.scale(1, 8)):
        tiny = cases.gen_continuum(rng, n_annot=2, sizes=[2, 2], family=rng.choice(["grid", "dyadic"]), labels=cases.LABELS_SMALL)
        n_big = rng.choice([257, 300, 400, 520])
        case = {"continuum": tiny, "dissim": {"kind": "positional", "delta": 1.0}, "n_samples": n_big, "precision": "auto",
                "target_N": n_big * rng.choice([0.8, 1.15, 1.6]), "sampler": rng.choice(["statistical", "shuffle_float"]),
                "mode": "exact", "ground_truth": None, "np_seed": rng.randrange(2 ** 31), "identical": False}
        ctx.begin_case(case)
        ctx.observe("mode", "exact")
        ctx.observe("n_samples", n_big)
        check_case(ctx, case)
    for i in range(ctx.scale(40, 420)):
        if ctx.out_of_time():
            break
        case = gen_case(ctx, dspecs)
        ctx.begin_case(case)
        ctx.observe("sampler", case["sampler"])
        if "session" in case:
            ctx.observe("mode", "session")
        else:
            ctx.observe("mode", case["mode"])
            ctx.observe("n_samples", case["n_samples"])
            ctx.observe("precision", "auto" if case["precision"] == "auto" else str(case["precision"]))
            ctx.observe("ground_truth_subset", case["ground_truth"] is not None)
        ctx.observe("annotators", len(case["continuum"]["ann"]))
        check_case(ctx, case)
