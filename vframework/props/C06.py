"""C06 - seeded results are reproducible under any thread schedule, worker count, hash seed and repetition."""
import hashlib
import os
import random
import struct
import sys
import threading

import numpy as np

from .. import cases, monitors, sched
from ..ctx import canon
from . import _align_common as ac

TITLE = "Seeded results are reproducible under any thread schedule"
DECIDING = ["M-EXEC", "M-REPRO", "M-HASHSEED", "M-REPEAT", "M-HISTORY"]
LEVEL = "exploration"
RULE = ("a scenario = (continuum, dissimilarity, sampler, mode, n_samples, precision, ground-truth subset given as an "
        "unsorted list or a set, numpy seed); its result vector "
        "(observed disorder, every chance disorder in order, gamma, gamma-cat, every gamma-k) is computed once with a "
        "single worker running jobs in submission order, and again under schedules produced by an instrumented executor "
        "(M-EXEC) that replaces the library's ThreadPoolExecutor: worker counts 1,2,3,5,8,16; jobs held until the "
        "submitter blocks, then started in reverse order / best-alignment-job last / seeded random permutations; "
        "free running with 0-5 ms jitter under sys.setswitchinterval(1e-5); the genuine ThreadPoolExecutor with "
        "os.cpu_count patched; GIL hand-offs injected (sys.monitoring LINE events) at random statement boundaries of the "
        "library's Python code inside the jobs; every run builds fresh continuum / dissimilarity objects, and two extra runs "
        "repeat the computation on the very objects of the reference run, one repeats it with a sampler object that has just served another call "
        "(explicit ground truth) on the same continuum, one repeats it after a CBC failure injected into an unrelated alignment, one after the same continuum object served a computation with another dissimilarity of equal parameters; one scenario in seven is large and sparse enough "
        "for the fast mode to record a finite window, one has all annotators identical (observed disorder 0), one is crowded "
        "(4-5 annotators with two long units each: the shuffle sampler runs out of free pivot zones), one asks for a precision "
        "that triggers a second batch after a first batch of 5-30 samples (worker counts 1,2,3,4,5,8,16), one has tied optimal alignments that differ in "
        "gamma-cat / gamma-k, one has units without label; plus plain repetition in the same process; results must be bit-identical.  A set of "
        "common scenarios is also run by every worker process, each under a different PYTHONHASHSEED (0, 1, 2, 3, "
        "random...) and the digests are compared across processes. non-trivial = scenario with >= 2 jobs; distinct = "
        "distinct (scenario, schedule)")
ASSUMPTIONS = [
    "schedules are controlled at job granularity (the library's only cross-thread dependency is which job runs when); "
    "preemption points inside CBC / GLPK / numba kernels are not controllable, and TSan cannot see through them",
    "bit-identical comparison of float values (the computation is deterministic given the samples)",
    "numpy global-RNG draws made from worker threads are recorded as an observation; the verdict comes from the "
    "differential comparison",
]
HASH_SEEDS = ["0", "1", "2", "3", "random", "12345", "random", "7", "99", "random", "4242", "31337", "random", "5", "6", "8"]
POLICIES = [("fifo", 1), ("fifo", 2), ("fifo", 16), ("lifo", 1), ("lifo", 3), ("first-last", 1), ("first-last", 5),
            ("random", 1), ("random", 2), ("random", 8), ("jitter", 3), ("jitter", 16), ("real", 2), ("real", 16), ("real", 4), ("fifo", 4),
            ("yield", 3), ("yield", 8)]


def plan(tier, seed):
    n = 4 if tier == "quick" else 16
    shards = []
    for i in range(n):
        shards.append({"env": {"PYTHONHASHSEED": HASH_SEEDS[i % len(HASH_SEEDS)]},
                       "params": {"time_budget": 50 if tier == "quick" else 700}})
    return {"shards": shards, "timeout": 460 if tier == "quick" else 2700}


_state = {}


def setup(ctx):
    ac.setup(ctx)
    if "exec" not in _state:
        sched.install()
        _state["rng"] = monitors.RngSpy().install()
        _state["exec"] = True
        _state["main"] = threading.get_ident()


def make_sampler(name):
    import pygamma_agreement as pa
    if name == "statistical":
        return pa.StatisticalContinuumSampler()
    return pa.ShuffleContinuumSampler("int_pivot" if name == "shuffle_int" else "float_pivot")


def result_vector(ctx, sc, policy, workers, sched_seed, objects=None, sampler_obj=None):
    """Run the scenario under one schedule; returns (digest, values, executor records, rng draws off the main thread).
    Every run gets FRESH objects (continuum, dissimilarity) unless `objects` hands over the ones of an earlier run -
    then the run is a repetition on the same objects."""
    ac.setup(ctx)
    if objects is None:
        dissim = cases.build_dissim(sc["dissim"])
        continuum = cases.build_continuum(sc["continuum"])
    else:
        dissim, continuum = objects
    _last_objects["o"] = (dissim, continuum)
    real_cpu = os.cpu_count
    old_switch = sys.getswitchinterval()
    sched.take_records()
    injector = None
    os.cpu_count = lambda: workers     # the library sizes its pool (and anything derived from it) from os.cpu_count()
    if policy == "yield":
        # free-running pool + GIL hand-offs injected at random statement boundaries of the library inside the jobs
        import pygamma_agreement
        sched.use_real(False)
        sched.CURRENT = sched.Config("fifo", workers, sched_seed)
        sys.setswitchinterval(1e-5)
        injector = sched.YieldInjector(seed=sched_seed, probability=0.05)
        injector.start(os.path.dirname(os.path.realpath(pygamma_agreement.__file__)))
    elif policy == "real":
        sched.use_real(True)
        os.cpu_count = lambda: workers
        sys.setswitchinterval(1e-5)
    else:
        sched.use_real(False)
        sched.CURRENT = sched.Config(policy, workers, sched_seed)
        if policy == "jitter":
            sys.setswitchinterval(1e-5)
    spy = _state["rng"]
    try:
        with spy.recording() as log:
            np.random.seed(sc["np_seed"])
            gt = sc.get("ground_truth")
            if gt is not None:
                gt = set(gt) if sc.get("ground_truth_as") == "set" else list(gt)
            res = continuum.compute_gamma(dissim, n_samples=sc["n_samples"], precision_level=sc["precision"],
                                          ground_truth_annotators=gt,
                                          sampler=sampler_obj if sampler_obj is not None else make_sampler(sc["sampler"]), fast=sc["mode"] == "fast",
                                          soft=sc["mode"] == "soft")
            vals = [float(res.observed_disorder)] + [float(a.disorder) for a in res.chance_alignments] + [float(res.gamma)]
            if sc["dissim"]["kind"] == "combined":
                with np.errstate(all="ignore"):
                    try:
                        vals.append(float(res.gamma_cat))
                        for c in continuum.categories:
                            vals.append(float(res.gamma_k(c)))
                    except ZeroDivisionError:
                        vals.append(float("nan"))
    finally:
        if injector is not None:
            injector.stop()
            ctx.observe("yield_injection", "runs")
            ctx.observe("yield_injection", "gil-handoffs-injected", injector.yields)
            ctx.observe("yield_injection", "statement-boundaries-seen-in-worker-threads", injector.lines_seen)
        os.cpu_count = real_cpu
        sys.setswitchinterval(old_switch)
        sched.use_real(False)
    off_main = sum(1 for (name, tid, a, k, r) in log if tid != _state["main"] and name != "seed")
    digest = hashlib.sha1(struct.pack(f"<{len(vals)}d", *vals)).hexdigest()[:16]
    return digest, vals, sched.take_records(), off_main


def gen_windowed_scenario(rng, quick=False):
    """A continuum large and sparse enough for the fast mode to record a finite window, with overlaps so that windowed
    and exact alignments of the samples can differ."""
    # (5 annotators x 12 long-overlapping units can take a minute per run: thorough tier only)
    n, k = rng.choice([(4, 14), (4, 14), (4, 16), (4, 16) if quick else (5, 12)])
    cspec = cases.gen_continuum(rng, n_annot=n, sizes=[k] * n, family=rng.choice(["grid", "grid", "grid" if quick else "mixeddur"]), labels=cases.LABELS_SMALL)
    return {"continuum": cspec, "dissim": {"kind": "combined", "alpha": 1.0, "beta": 1.0, "delta": 1.0, "pos": None, "cat": None},
            "ground_truth": None, "ground_truth_as": "list", "sampler": rng.choice(["statistical", "shuffle_int"]), "mode": "fast",
            "n_samples": rng.choice([2, 2, 3]), "precision": None, "np_seed": rng.randrange(2 ** 31)}


def gen_identical_scenario(rng):
    """All annotators made exactly the same annotations (observed disorder exactly 0)."""
    base = cases.gen_continuum(rng, n_annot=1, max_units=5, allow_empty=False, labels=cases.LABELS_SMALL, family="grid", names=["x"])
    n = rng.randint(2, 4)
    cspec = {"ann": {a: [list(u) for u in base["ann"]["x"]] for a in cases.ANNOTATOR_NAMES[:n]}, "family": "identical-annotators"}
    return {"continuum": cspec, "dissim": {"kind": "combined", "alpha": 1.0, "beta": 1.0, "delta": 1.0, "pos": None, "cat": None},
            "ground_truth": None, "ground_truth_as": "list", "sampler": rng.choice(["statistical", "shuffle_float"]),
            "mode": rng.choice(["exact", "soft"]), "n_samples": rng.choice([6, 12, 20]), "precision": None, "np_seed": rng.randrange(2 ** 31)}


def gen_crowded_scenario(rng):
    """More annotators than the continuum has room for: the shuffle sampler runs out of free zones for its pivots and
    takes its fallback path (and the statistical sampler piles units up)."""
    n = rng.choice([4, 5, 5])
    ann = {}
    for a in cases.ANNOTATOR_NAMES[:n]:
        s0 = float(rng.randrange(0, 6))
        d0, d1 = float(rng.randrange(14, 22)), float(rng.randrange(14, 22))
        ann[a] = [[s0, s0 + d0, rng.choice(cases.LABELS_SMALL)], [s0 + d0 + 1.0, s0 + d0 + 1.0 + d1, rng.choice(cases.LABELS_SMALL)]]
    return {"continuum": {"ann": ann, "family": "crowded"},
            "dissim": {"kind": "combined", "alpha": 1.0, "beta": 1.0, "delta": 1.0, "pos": None, "cat": None},
            "ground_truth": None, "ground_truth_as": "list", "sampler": rng.choice(["shuffle_float", "shuffle_int", "shuffle_float", "statistical"]),
            "mode": rng.choice(["exact", "soft"]), "n_samples": rng.choice([4, 6, 10]), "precision": None, "np_seed": rng.randrange(2 ** 31)}


def gen_second_batch_scenario(rng):
    """A precision level that calls for a second batch of samples, with first-batch sizes that are not multiples of small
    worker counts: what the first batch consumed from the random stream must not depend on how it was submitted."""
    cspec = cases.gen_continuum(rng, n_annot=2, sizes=[3, rng.choice([2, 3])], family=rng.choice(["grid", "dyadic"]), labels=cases.LABELS_SMALL)
    return {"continuum": cspec, "dissim": {"kind": "positional", "delta": 1.0}, "ground_truth": None, "ground_truth_as": "list",
            "sampler": rng.choice(["statistical", "shuffle_float"]), "mode": "exact", "n_samples": rng.choice([5, 7, 9, 11, 13, 30]),
            "precision": rng.choice([0.05, 0.08, 0.1]), "np_seed": rng.randrange(2 ** 31)}


def gen_tied_scenario(rng):
    """Continua whose best alignment is not unique: a unit lies exactly half-way between two units of another annotator that
    carry different labels, so two alignments have exactly the same disorder but other gamma-cat / gamma-k values.  Which
    of them is returned must not depend on the schedule, on repetition, nor on what happened earlier in the process."""
    n = rng.choice([2, 3])
    names = cases.ANNOTATOR_NAMES[:n]
    ann = {a: [] for a in names}
    t = 0.0
    for _ in range(rng.randint(2, 4)):
        a, b = rng.sample(names, 2)
        ann[a].append([t + 1.0, t + 3.0, "x"])
        ann[b].append([t, t + 2.0, "y"])
        ann[b].append([t + 2.0, t + 4.0, "z"])
        for c in names:
            if c not in (a, b):
                ann[c].append([t + 1.0, t + 3.0, rng.choice(["x", "y", "z"])])
        t += float(rng.choice([10, 12, 16]))
    return {"continuum": {"ann": {a: sorted(us) for a, us in ann.items()}, "family": "tied-optima"},
            "dissim": {"kind": "combined", "alpha": 1.0, "beta": 1.0, "delta": 1.0, "pos": None, "cat": None},
            "ground_truth": None, "ground_truth_as": "list", "sampler": rng.choice(["shuffle_int", "shuffle_float", "statistical"]),
            "mode": rng.choice(["exact", "exact", "soft"]), "n_samples": rng.choice([3, 5]), "precision": None, "np_seed": rng.randrange(2 ** 31)}


def gen_unlabelled_scenario(rng):
    """Units without label (all or some of them), the default combined dissimilarity, the shuffle sampler (the statistical one is
    stated for labelled references)."""
    n = rng.choice([2, 3, 3])
    cspec = cases.gen_continuum(rng, n_annot=n, max_units=5, allow_empty=False, labels=cases.LABELS_SMALL, p_none=rng.choice([0.4, 1.0]),
                                family=rng.choice(["grid", "dyadic", "longoverlap"]))
    return {"continuum": cspec, "dissim": {"kind": "combined", "alpha": 1.0, "beta": 1.0, "delta": 1.0, "pos": None, "cat": None},
            "ground_truth": None, "ground_truth_as": "list", "sampler": rng.choice(["shuffle_int", "shuffle_float"]),
            "mode": rng.choice(["exact", "soft", "fast"]), "n_samples": rng.choice([3, 6]), "precision": None, "np_seed": rng.randrange(2 ** 31)}


def gen_scenario(rng, dspecs):
    dspec = rng.choice(dspecs)
    labels = cases.dissim_labels(dspec) or cases.LABELS_SMALL
    n = rng.choice([2, 3, 3, 4, 4])
    cspec = cases.gen_continuum(rng, n_annot=n, max_units={2: 7, 3: 5, 4: 3}[n], allow_empty=False, labels=labels,
                                family=rng.choice(["grid", "dyadic", "touching", "generic", "longoverlap", "nested"]))
    names = sorted(cspec["ann"].keys())
    gt = None
    if n >= 3 and rng.random() < 0.5:
        gt = rng.sample(names, rng.randint(2, n))       # deliberately unsorted
    return {"continuum": cspec, "dissim": dspec, "ground_truth": gt, "ground_truth_as": rng.choice(["set", "list"]),
            "sampler": rng.choice(["statistical", "shuffle_int", "shuffle_float"]),
            "mode": rng.choice(["exact", "exact", "fast", "soft"]), "n_samples": rng.choice([2, 4, 6, 9, 12]),
            "precision": rng.choice([None, None, 0.3, 0.5]), "np_seed": rng.randrange(2 ** 31)}


def check_case(ctx, case):
    """case = {"scenario": ..., "schedules": [[policy, workers, seed], ...]}"""
    setup(ctx)
    if "scenario" not in case:
        return None
    sc = case["scenario"]
    import time as _t
    _t0 = _t.time()
    try:
        base, base_vals, recs, off = result_vector(ctx, sc, "fifo", 1, 0)
    except Exception as e:
        ctx.fail_exc(f"reference-run-raises:{type(e).__name__}", e, monitor="M-REPRO")
        return None
    ctx.count("M-EXEC", len(recs))
    ref_objects = _last_objects.get("o")
    if off:
        ctx.observe("rng_draws_off_main_thread", "reference-run", off)
    schedules = [list(x) for x in case["schedules"]]
    # plain repetition on the very same continuum and dissimilarity objects (first in order, then under a held schedule)
    schedules = [["repeat-same-objects:fifo", 1, 0], ["repeat-same-objects:lifo", 3, 1]] + schedules
    # what happened earlier in the process must not matter either: the same sampler object served another call (with an explicit
    # ground truth) on the same continuum; a solver failure occurred in an unrelated computation
    schedules = schedules[:3] + [["history:same-sampler-after-a-call-with-ground-truth", 2, 5], ["history:after-a-transient-solver-failure", 2, 6],
                                 ["history:same-continuum-after-an-equal-parameter-dissimilarity", 2, 7]] + schedules[3:]
    spare = None
    for k_run, (policy, workers, sseed) in enumerate(schedules):
        if k_run >= 4 and ctx.out_of_time():
            ctx.observe("schedules_dropped_for_time", "scenarios")      # a slow scenario: the remaining schedules are not run
            break
        try:
            if policy == "history:same-sampler-after-a-call-with-ground-truth":
                ctx.count("M-HISTORY")
                sampler_obj = make_sampler(sc["sampler"])
                d0, c0 = ref_objects
                np.random.seed(4242)
                c0.compute_gamma(d0, n_samples=2, ground_truth_annotators=sorted(c0.annotators)[-2:], sampler=sampler_obj,
                                 fast=sc["mode"] == "fast", soft=sc["mode"] == "soft")
                dig, vals, recs, off = result_vector(ctx, sc, "fifo", workers, sseed, objects=ref_objects, sampler_obj=sampler_obj)
            elif policy == "history:same-continuum-after-an-equal-parameter-dissimilarity":
                # the very continuum object of the reference run first serves a computation with ANOTHER dissimilarity of the same
                # class / delta_empty / categories / weights (another matrix, other positions), then the scenario is repeated on it
                alt = ac.same_parameters_other_measure(random.Random(sseed), sc["dissim"])
                if alt is None or sc["mode"] == "fast":      # (fast mode records a window size on the continuum: documented state)
                    continue
                ctx.count("M-HISTORY")
                c1 = cases.build_continuum(sc["continuum"])        # a continuum object whose FIRST computation is the other one
                np.random.seed(4243)
                c1.compute_gamma(cases.build_dissim(alt), n_samples=2, fast=sc["mode"] == "fast", soft=sc["mode"] == "soft")
                dig, vals, recs, off = result_vector(ctx, sc, "fifo", workers, sseed, objects=(cases.build_dissim(sc["dissim"]), c1))
            elif policy == "history:after-a-transient-solver-failure":
                ctx.count("M-HISTORY")
                spy_, pool_ = ac.setup(ctx)
                other = cases.build_continuum({"ann": {"p": [[0.0, 2.0, "a"], [3.0, 5.0, "b"]], "q": [[0.0, 2.5, "a"], [3.5, 5.0, "b"]]}})
                spy_.fail_cbc = True
                try:
                    other.get_best_alignment(pool_.get({"kind": "positional", "delta": 1.0}))
                finally:
                    spy_.fail_cbc = False
                dig, vals, recs, off = result_vector(ctx, sc, "fifo", workers, sseed)
            elif policy.startswith("repeat-same-objects:"):
                ctx.count("M-REPEAT")
                dig, vals, recs, off = result_vector(ctx, sc, policy.split(":")[1], workers, sseed, objects=ref_objects)
            elif k_run < 5 or spare is None:
                # fresh continuum and dissimilarity objects (every kernel compilation stays in memory for the life of
                # the process, so only the first schedules get brand-new objects; the later ones share one more pair)
                dig, vals, recs, off = result_vector(ctx, sc, policy, workers, sseed)
                spare = (_last_objects["o"][0], None)
            else:
                dig, vals, recs, off = result_vector(ctx, sc, policy, workers, sseed,
                                                     objects=(spare[0], cases.build_continuum(sc["continuum"])))
        except Exception as e:
            ctx.fail_exc(f"run-raises:{policy}:{type(e).__name__}", e, monitor="M-REPRO")
            continue
        if os.environ.get("C06_TIMING"):
            print(f"TIMING {policy}/{workers} {_t.time() - _t0:.1f}s mode={sc['mode']} n={sc['n_samples']} kind={sc['dissim']['kind']}", file=sys.stderr, flush=True)
        ctx.count("M-REPRO")
        ctx.count("M-EXEC", len(recs))
        ctx.observe("policy", f"{policy}/{workers}")
        if off:
            ctx.observe("rng_draws_off_main_thread", policy, off)
        for r in recs:
            if r["submitted"] > 1:
                ctx.observe("max_overlap", r["max_overlap"])
                ctx.observe("threads_used", r["threads"])
                order = "in-order" if r["start"] == sorted(r["start"]) else ("reversed" if r["start"] == sorted(r["start"], reverse=True) else "permuted")
                ctx.observe("start_order", order)
                ctx.observe("finish_order", "in-order" if r["finish"] == sorted(r["finish"]) else "permuted")
                _perm_seen.add((tuple(r["start"]), tuple(r["finish"])))
        if dig != base:
            k = next((i for i, (a, b) in enumerate(zip(base_vals, vals)) if not (a == b or (a != a and b != b))), min(len(base_vals), len(vals)))
            what = "length" if len(vals) != len(base_vals) else ("observed" if k == 0 else ("chance-disorder" if k < len(vals) - 1 else "gamma"))
            ctx.fail(f"result-differs-under-schedule:{what}",
                     {"policy": policy, "workers": workers, "first_difference_at": k, "reference": base_vals[:8], "got": vals[:8],
                      "n_values": [len(base_vals), len(vals)], "rng_draws_off_main_thread": off,
                      "start_order": [r["start"][:12] for r in recs][:2]}, monitor="M-REPRO")
    return base


_perm_seen = set()
_last_objects = {}


def run(ctx):
    setup(ctx)
    # ---- first thing in this process: scenarios with tied optimal alignments (anything that switches the process to another
    # behaviour for good - after a fault, after a first call - can only be seen by what ran before the switch)
    first_rng = random.Random(f"C06-first:{ctx.seed}:{ctx.shard}")
    for i in range(2):
        sc = gen_tied_scenario(first_rng)
        case = {"scenario": sc, "schedules": [["lifo", 3, i]]}
        ctx.begin_case(case)
        ctx.observe("scenario_kind", "tied-optima(first in the process)")
        check_case(ctx, case)
    # ---- scenarios common to all worker processes (different PYTHONHASHSEED each): digests compared by cross_shard
    common_rng = random.Random(f"C06-common:{ctx.seed}")
    dspecs_common = cases.gen_pool_specs(common_rng, 6, kinds=["combined", "combined", "positional", "levenshtein"])
    dspecs_common.append({"kind": "combined", "alpha": 1.0, "beta": 1.0, "delta": 1.0, "pos": None, "cat": None})
    digests = {}
    for i in range(ctx.scale(6, 20)):
        sc = gen_scenario(common_rng, dspecs_common)
        case = {"scenario": sc, "schedules": [["random", 3, i], ["fifo", 1, 0]]}
        ctx.begin_case(case, key="common:" + hashlib.sha1(canon(case).encode()).hexdigest()[:12] + f":{ctx.shard}")
        base = check_case(ctx, case)
        ctx.count("M-HASHSEED")
        if base is not None:
            digests[hashlib.sha1(canon(sc).encode()).hexdigest()[:12]] = base
    ctx.note("common_digests", digests)
    ctx.note("hash_seed", os.environ.get("PYTHONHASHSEED"))
    ctx.note("hash_of_probe_string", hash("probe-string") & 0xffff)
    # ---- schedule sweeps on shard-specific scenarios
    rng = ctx.rng
    dspecs = cases.gen_pool_specs(rng, ctx.scale(6, 14), kinds=["combined", "combined", "positional", "absolute", "levenshtein", "precomputed"])
    dspecs.append({"kind": "combined", "alpha": 3.0, "beta": 1.0, "delta": 1.0, "pos": None, "cat": None})
    import resource
    for i in range(ctx.scale(14, 160)):
        if i >= 6 and ctx.out_of_time():      # the first scenario of each special kind runs whatever the budget
            break
        if resource.getrusage(resource.RUSAGE_SELF).ru_maxrss > 3_500_000:     # kB: compiled kernels are never freed
            ctx.observe("stopped_early", "memory: compiled kernels of the fresh dissimilarity objects")
            break
        kind = ["fast-windowed-size", "identical-annotators", "crowded", "second-batch", "tied-optima", "unlabelled-units", "small", "small", "small"][i % 9]
        sc = {"fast-windowed-size": lambda: gen_windowed_scenario(rng, ctx.tier == "quick"), "identical-annotators": lambda: gen_identical_scenario(rng),
              "tied-optima": lambda: gen_tied_scenario(rng), "unlabelled-units": lambda: gen_unlabelled_scenario(rng),
              "crowded": lambda: gen_crowded_scenario(rng), "second-batch": lambda: gen_second_batch_scenario(rng),
              "small": lambda: gen_scenario(rng, dspecs)}[kind]()
        ctx.observe("scenario_kind", kind)
        k = ctx.scale(5, 8) if kind != "fast-windowed-size" else ctx.scale(3, 5)
        chosen = rng.sample(POLICIES, k)
        case = {"scenario": sc, "schedules": [[p, w, rng.randrange(10 ** 6)] for p, w in chosen]}
        ctx.begin_case(case)
        ctx.observe("mode", sc["mode"])
        ctx.observe("sampler", sc["sampler"])
        check_case(ctx, case)
    ctx.observe("distinct_(start,finish)_permutations", "count", len(_perm_seen))


def cross_shard(shard_notes, shard_envs, monitors_, observed):
    """Same scenario, different processes / hash seeds: digests must agree."""
    fails = []
    ref = None
    seeds_seen = set()
    for i in sorted(shard_notes):
        d = shard_notes[i].get("common_digests")
        if d is None:
            continue
        seeds_seen.add((shard_notes[i].get("hash_seed"), shard_notes[i].get("hash_of_probe_string")))
        if ref is None:
            ref = (i, d)
            continue
        for k in sorted(set(ref[1]) & set(d)):
            if ref[1][k] != d[k]:
                fails.append({"key": "result-differs-across-processes-or-hash-seeds", "monitor": "M-HASHSEED",
                              "detail": {"scenario": k, "shard_a": ref[0], "env_a": shard_envs[ref[0]], "digest_a": ref[1][k],
                                         "shard_b": i, "env_b": shard_envs[i], "digest_b": d[k]},
                              "case": {"common_scenario": k}})
                break
    observed["hash_seed_processes"]["distinct (PYTHONHASHSEED, hash('probe-string')) pairs"] = len(seeds_seen)
    return fails
