"""C07 - candidate unitary alignments are exactly the tuples under the n*delta_empty cut, for any count."""
import numpy as np

from .. import cases, oracles
from . import _align_common as ac

TITLE = "Candidate unitary alignments are exactly those under the n*delta_empty cut"
DECIDING = ["M-CAND", "M-SESSION", "M-CAND-CONCURRENT"]
LEVEL = "exploration"
RULE = ("(a) seeded random continua, 2-5 annotators, pooled dissimilarities; (b) continua engineered so that the "
        "candidate count sits on and around every growth boundary of the kernel's result buffers (10000, 15000, "
        "22500, 33750, 50625: a cluster of near-identical units makes every tuple pass, far-apart units add exactly "
        "one candidate each), 2 and 3 annotators; (c) an exact-arithmetic family (dyadic costs) in which tuples sit "
        "exactly on the cut; (d) extreme delta_empty values (3e-7 .. 1e4); (e) sessions: candidates, an edit of the same "
        "continuum object (add_annotator, merge of a unit-less annotator, add, remove, a far unit added and removed), candidates "
        "again; (f) continua with open-ended units (end = inf: every pair dissimilarity with them is nan, and a nan disorder "
        "is not 'at most' the cut); (g) one dissimilarity object producing the candidates of 4 continua with different category sets "
        "from 4 user threads at once; (h) 3-4 annotators with a cluster of short units near the origin and one 2^17 .. 2^21 away "
        "(pair values of the order of 1e10 next to values of the order of 1); (i) 30 % of the random cases with a label-reading dissimilarity come right after a call, in the same thread, on a continuum that the dissimilarity refuses part-way (an unlabelled or out-of-alphabet unit of a later annotator; M-CAND-AFTER-REFUSAL counts them).  Each result is compared with the full enumeration of all index tuples.  Every case "
        "runs in a default build or a NUMBA_BOUNDSCHECK=1 build (alternating shards; boundary cases in both). "
        "non-trivial = at least 2 candidates expected; distinct by SHA-1 of the case")
ASSUMPTIONS = [
    "pair costs are read from the compiled d_mat on arrays built by the harness",
    "membership is three-valued: must be present if disorder < cut*(1-1e-5), must be absent if > cut*(1+1e-5), free "
    "in between - except when all pair costs and the cut are small dyadic rationals (sums exact in any precision "
    "and order), where membership must be exactly 'disorder <= cut'",
    "the order of the candidates is not part of the statement",
    "index value == number of units of the annotator denotes the empty unit (the library's convention, used by "
    "its own ILP builder)",
]

BOUNDARIES = [10000, 15000, 22500, 33750, 50625]


def plan(tier, seed):
    return ac.std_plan(tier, quick_budget=70, thorough_budget=600)


def engineered(n_annot, target_total, rng):
    """Continuum whose enumeration (all-empty tuple included) passes exactly `target_total` tuples under the cut
    with the positional dissimilarity."""
    side = 1
    while (side + 1) ** n_annot <= target_total:
        side += 1
    a = side - 1                      # cluster of a near-identical units per annotator: side^n tuples pass
    extra = target_total - side ** n_annot
    names = cases.ANNOTATOR_NAMES[:n_annot]
    ann = {}
    eps = 1.0 / 4096
    for k, name in enumerate(names):
        ann[name] = [[i * eps + k * eps / 8, 1.0 + i * eps + k * eps / 8, "a"] for i in range(a)]
    spacing = 8.0                     # (8/1)^2 = 64 delta > the largest cut (50 delta for 5 annotators)
    for j in range(extra):            # far-apart units, all on the first annotator (keeps the product small)
        s = 100.0 + spacing * j
        ann[names[0]].append([s, s + 1.0, "a"])
    return {"ann": ann, "family": "engineered"}


def boundary_exact_case(rng):
    """Dyadic costs, several tuples exactly on the cut: unit durations 2, integer starts, combined alpha=beta=1."""
    n = rng.choice([2, 2, 3])
    delta = rng.choice([0.5, 1.0, 2.0])
    ann = {}
    for name in cases.ANNOTATOR_NAMES[:n]:
        k = rng.randint(1, 5)
        units = set()
        while len(units) < k:
            s = float(rng.randrange(0, 10))
            units.add((s, s + 2.0, rng.choice(["a", "b"])))
        ann[name] = [list(u) for u in sorted(units)]
    dspec = {"kind": "combined", "alpha": rng.choice([0.5, 1.0, 2.0]), "beta": rng.choice([0.0, 1.0, 2.0]), "delta": delta,
             "pos": None, "cat": None}
    if dspec["alpha"] == 0 and dspec["beta"] == 0:
        dspec["alpha"] = 1.0
    return {"continuum": {"ann": ann, "family": "dyadic-on-the-cut"}, "dissim": dspec}


def _is_small_dyadic(x):
    y = x * 4096.0
    return y == np.floor(y) and abs(y) < 2 ** 30


def check_case(ctx, case, continuum=None):
    _, pool = ac.setup(ctx)
    cspec, dspec = case["continuum"], case["dissim"]
    dissim = pool.get(dspec)
    if continuum is None:
        continuum = cases.build_continuum(cspec)
    if case.get("refused_first"):
        # a multi-step history in one thread: a call on a continuum the dissimilarity refuses part-way through its
        # preparation (caught, as a caller would), then the call that is checked - it must not see anything of the first
        try:
            dissim.valid_alignments(cases.build_continuum(case["refused_first"]))
            ctx.observe("refused_first", "accepted")
        except Exception as e:
            ctx.observe("refused_first", "refused:" + type(e).__name__)
        ctx.count("M-CAND-AFTER-REFUSAL")
    try:
        disorders, tuples = dissim.valid_alignments(continuum)
    except BaseException as e:
        ctx.count("M-CAND")
        ctx.fail_exc(f"raises:{type(e).__name__}", e, monitor="M-CAND")
        return
    ctx.count("M-CAND")
    disorders = np.asarray(disorders)
    tuples = np.asarray(tuples)
    arrays, sizes, mats, tensor = ac.oracle_tables(cspec, dissim)
    n = len(sizes)
    shape = tuple(s + 1 for s in sizes)
    ctx.observe("returned_candidates_bucket", _bucket(len(disorders)))
    ctx.observe("annotators", n)
    problems = []
    if tuples.ndim != 2 or tuples.shape[1] != n or len(tuples) != len(disorders):
        ctx.fail("malformed-result", {"tuples_shape": list(tuples.shape), "n_disorders": len(disorders)}, monitor="M-CAND")
        return
    if len(tuples) and ((tuples < 0).any() or (tuples >= np.array(shape)[None, :]).any()):
        bad = tuples[((tuples < 0) | (tuples >= np.array(shape)[None, :])).any(axis=1)][:3]
        ctx.fail("index-out-of-range", {"examples": bad.tolist(), "sizes": sizes}, monitor="M-CAND")
        return
    lin = np.ravel_multi_index(tuples.T.astype(np.int64), shape) if len(tuples) else np.zeros(0, dtype=np.int64)
    uniq, counts = np.unique(lin, return_counts=True)
    if (counts > 1).any():
        dup = np.array(np.unravel_index(uniq[counts > 1][:3], shape)).T.tolist()
        problems.append(("duplicate-tuple", {"examples": dup, "n_duplicated": int((counts > 1).sum())}))
    empty_lin = np.ravel_multi_index(tuple(sizes), shape)
    if (lin == empty_lin).any():
        problems.append(("all-empty-tuple-returned", {"position": int(np.where(lin == empty_lin)[0][0]),
                                                      "n_returned": int(len(lin))}))
    flat = tensor.reshape(-1)
    cut = n * float(np.float32(dissim.delta_empty))
    exact = all(_is_small_dyadic(v) for m in mats.values() for v in np.unique(m)) and _is_small_dyadic(cut)
    ctx.observe("exact_arithmetic_case", exact)
    present = np.zeros(flat.shape, dtype=bool)
    present[lin] = True
    if exact:
        must_in = flat <= cut
        must_out = flat > cut
        ctx.observe("tuples_exactly_on_cut", int(min(9, (flat == cut).sum())))
    else:
        must_in = flat < cut * (1 - 1e-5)
        must_out = flat > cut * (1 + 1e-5)
    # a combination whose disorder is not a number (a pair dissimilarity is nan: open-ended units) is not "at most" the cut
    nan = np.isnan(flat)
    if nan.any():
        ctx.observe("tuples_with_nan_disorder", int(min(9, nan.sum())))
        must_out = must_out | nan
    must_in[empty_lin] = False
    must_out[empty_lin] = False
    missing = np.where(must_in & ~present)[0]
    extra = np.where(must_out & present)[0]
    if len(missing):
        ex = np.array(np.unravel_index(missing[:3], shape)).T.tolist()
        problems.append(("candidate-missing", {"n_missing": int(len(missing)), "examples": ex,
                                               "their_disorder": flat[missing[:3]].tolist(), "cut": cut,
                                               "n_returned": int(len(lin)), "n_expected_min": int(must_in.sum())}))
    if len(extra):
        ex = np.array(np.unravel_index(extra[:3], shape)).T.tolist()
        problems.append(("candidate-over-the-cut", {"n_extra": int(len(extra)), "examples": ex,
                                                    "their_disorder": flat[extra[:3]].tolist(), "cut": cut}))
    if len(lin):
        ref = flat[lin]
        got = disorders.astype(np.float64)
        tol = 2e-5 * np.maximum(min(1.0, cut), np.maximum(np.abs(ref), np.abs(got)))   # scale-aware (tiny delta_empty)
        bad = np.where(~(np.abs(ref - got) <= tol))[0]
        if len(bad):
            problems.append(("wrong-candidate-disorder", {"n_wrong": int(len(bad)), "tuple": tuples[bad[0]].tolist(),
                                                          "got": float(got[bad[0]]), "expected": float(ref[bad[0]])}))
    for key, detail in problems:
        ctx.fail(key, detail, monitor="M-CAND")


def _bucket(m):
    for b in (1, 2, 10, 100, 1000, 9998):
        if m <= b:
            return f"<={b}"
    if m <= 50700:
        return str(m) if any(abs(m + 1 - B) <= 2 for B in BOUNDARIES) else f"~{round(m, -3)}"
    return ">50700"


def run(ctx):
    ac.setup(ctx)
    rng = ctx.rng
    pos = {"kind": "positional", "delta": 1.0}
    # (b) engineered boundary cases: every worker (so both builds) runs its share; boundaries split over workers
    bounds = BOUNDARIES[:2] if ctx.tier == "quick" else BOUNDARIES
    plan_b = []
    for B in bounds:
        for off in (-2, -1, 0, 1, 2):
            for n in (2, 3):
                plan_b.append((n, B + off))
    if ctx.tier == "thorough":
        plan_b += [(2, 60000), (3, 75939), (2, 113906), (4, 10000), (4, 10001), (5, 10000), (5, 10001)]
    else:
        plan_b += [(2, 2), (3, 2), (2, 3)]
    # each (n, total) is run by one default-build worker and one bounds-checked worker
    pairs = ctx.nshards // 2 or 1
    mine = [p for i, p in enumerate(plan_b) if i % pairs == ctx.shard // 2] if ctx.nshards > 1 else plan_b
    for n, total in mine:
        cspec = engineered(n, total, rng)
        d = dict(pos, delta=rng.choice([0.5, 1.0, 2.0]))
        case = {"continuum": cspec, "dissim": d, "engineered_total": total}
        ctx.begin_case({"engineered": [n, total], "delta": d["delta"], "boundscheck": ctx.notes.get("boundscheck")},
                       nontrivial=total > 2)
        ctx.observe("engineered_total", total)
        ctx.current = {"regenerate": "engineered", "n": n, "total": total, "dissim": d}
        check_case(ctx, case)
    # (c) exact arithmetic family
    for _ in range(ctx.scale(60, 3000)):
        case = boundary_exact_case(rng)
        ctx.begin_case(case)
        ctx.observe("family", "dyadic-on-the-cut")
        check_case(ctx, case)
    # (d) extreme delta_empty values: every disorder and the cut scale with it, so nothing may depend on its magnitude
    for _ in range(ctx.scale(40, 600)):
        delta = rng.choice([1e-5, 2e-6, 1e-3, 1e4, 3e-7])
        dspec = rng.choice([{"kind": "positional", "delta": delta}, {"kind": "absolute", "delta": delta},
                            {"kind": "combined", "alpha": rng.choice([0.5, 1.0, 3.0]), "beta": rng.choice([0.0, 1.0, 2.0]),
                             "delta": delta, "pos": None, "cat": None}])
        n = rng.randint(2, 4)
        cspec = cases.gen_continuum(rng, n_annot=n, max_units={2: 12, 3: 7, 4: 5}[n], min_total=2,
                                    family=rng.choice(["grid", "dyadic", "mixeddur", "touching", "generic", "dense"]))
        case = {"continuum": cspec, "dissim": dspec}
        ctx.begin_case(case)
        ctx.observe("family", "extreme-delta")
        ctx.observe("delta_extreme", delta)
        check_case(ctx, case)
    # (e) sessions on ONE continuum object and one dissimilarity object: candidates, edit, candidates again
    sess_specs = cases.gen_pool_specs(rng, 5) + [{"kind": "positional", "delta": 1.0}]
    for _ in range(ctx.scale(40, 500)):
        dspec = rng.choice(sess_specs)
        labels = cases.dissim_labels(dspec) or cases.LABELS_SMALL
        n = rng.randint(2, 4)
        cspec = cases.gen_continuum(rng, n_annot=n, max_units=4, labels=labels, min_total=2)
        ops = ac.gen_edit_ops(rng, cspec, labels, rng.randint(2, 5))
        case = {"continuum": cspec, "dissim": dspec, "session": ops}
        ctx.begin_case(case)
        ctx.observe("family", "session")
        check_case(ctx, case)
    # (f) open-ended units (Segment(start, inf), which Continuum.add accepts): their positional dissimilarity to any unit
    # is not a number, so they can only be aligned with empty units
    open_d = [{"kind": "positional", "delta": 1.0}, {"kind": "combined", "alpha": 1.0, "beta": 1.0, "delta": 2.0, "pos": None, "cat": None},
              {"kind": "absolute", "delta": 1.0}]
    for i in range(ctx.scale(30, 400)):
        n = rng.randint(2, 4)
        cspec = cases.gen_continuum(rng, n_annot=n, max_units={2: 10, 3: 6, 4: 4}[n], min_total=3, allow_empty=False,
                                    family=rng.choice(["grid", "dyadic", "touching", "dense", "generic"]), labels=cases.LABELS_SMALL)
        for a in rng.sample(sorted(cspec["ann"]), rng.randint(1, n)):
            us = cspec["ann"][a]
            j = max(range(len(us)), key=lambda t: us[t][0])
            us[j][1] = float("inf")
        case = {"continuum": cspec, "dissim": open_d[i % 3]}
        ctx.begin_case(case)
        ctx.observe("family", "open-ended")
        check_case(ctx, case)
    # (g) one dissimilarity object producing the candidates of several continua (different category sets) from several
    # user threads at once
    for _ in range(ctx.scale(5, 60)):
        case = ac.gen_concurrent_candidates_case(rng)
        ctx.begin_case(case)
        ctx.observe("family", "concurrent-threads")
        check_case(ctx, case)
    # (h) far clusters: >= 3 annotators, short units near the origin and short units 2^17 .. 2^21 away (float32-exact): pairs
    # across the clusters have dissimilarities of the order of 1e10 .. 1e12, next to pairs of the order of 1
    for i in range(ctx.scale(25, 400)):
        n = rng.choice([3, 3, 4])
        far = float(rng.choice([2 ** 17, 2 ** 19, 2 ** 21]))
        ann = {}
        for a in cases.ANNOTATOR_NAMES[:n]:
            us = set()
            for _ in range(rng.randint(1, 4)):
                base = far if rng.random() < 0.4 else 0.0
                s0 = base + float(rng.randrange(0, 12))
                us.add((s0, s0 + float(rng.choice([1, 1, 2, 3])), rng.choice(cases.LABELS_SMALL)))
            ann[a] = [list(u) for u in sorted(us, key=cases.unit_key)]
        case = {"continuum": {"ann": ann, "family": "far-clusters"}, "dissim": open_d[i % 2]}
        ctx.begin_case(case)
        ctx.observe("family", "far-clusters")
        check_case(ctx, case)
    # (a) random
    dspecs = cases.gen_pool_specs(rng, ctx.scale(10, 24))
    for _ in range(ctx.scale(120, 5000)):
        if ctx.out_of_time():
            break
        dspec = rng.choice(dspecs)
        labels = cases.dissim_labels(dspec)
        n = rng.randint(2, 5)
        mx = {2: 40, 3: 14, 4: 8, 5: 5}[n]
        cspec = cases.gen_continuum(rng, n_annot=n, max_units=rng.randint(1, mx), labels=labels or cases.LABELS_SMALL,
                                    min_total=1)
        case = {"continuum": cspec, "dissim": dspec}
        if labels is not None and rng.random() < 0.3:
            # the same shape of continuum with one unit of a later annotator unlabelled / labelled outside the categories
            bad = cases.gen_continuum(rng, n_annot=rng.randint(2, 4), max_units=3, labels=labels, min_total=3, allow_empty=False)
            last = list(bad["ann"])[-1]
            bad["ann"][last][-1][2] = rng.choice([None, "@not-a-category@"])
            case["refused_first"] = bad
        ctx.begin_case(case, nontrivial=cases.spec_num_units(cspec) >= 2)
        ctx.observe("family", cspec.get("family"))
        ctx.observe("dissim", dspec["kind"])
        check_case(ctx, case)


def replay_case(case):
    if case.get("regenerate") == "engineered":
        import random
        return {"continuum": engineered(case["n"], case["total"], random.Random(0)), "dissim": case["dissim"]}
    return case


_orig_check = check_case


def check_case(ctx, case):  # noqa: F811  (replay files of engineered cases store the recipe, not 50 000 units)
    if case.get("concurrent") == "candidates":
        return ac.check_concurrent_candidates_case(ctx, case, "M-CAND-CONCURRENT")
    if "session" in case:
        _, pool = ac.setup(ctx)
        continuum = cases.build_continuum(case["continuum"])
        for op in [None] + case["session"]:
            if op is not None:
                ac.apply_edit(continuum, op)
            if not continuum or len(continuum.annotators) < 2:
                continue
            ctx.count("M-SESSION")
            _orig_check(ctx, {"continuum": cases.spec_of(continuum), "dissim": case["dissim"]}, continuum=continuum)
        return
    return _orig_check(ctx, replay_case(case))
