"""C08 - alignment results do not depend on the MIP back-end (CBC usable / not importable / failing)."""
from .. import cases, monitors, oracles
from . import _align_common as ac

TITLE = "Alignment results do not depend on the MIP back-end"
DECIDING = ["M-SOLVER", "M-PART", "M-COVER", "M-EQ", "M-OPT", "M-SESSION", "M-CONCURRENT-KINDS"]
LEVEL = "exploration"
RULE = ("every case = one continuum (small to medium: up to 2x40, 3x12, 4x6, 5x4 units; plus a block of 2x~180 and 3x~40 dense "
        "continua with 10 000 - 50 000 candidate unitary alignments, plus a sweep of 3-annotator continua through the point where a "
        "triple and a pair + singleton cost the same, in steps of 1/256, plus a block with delta_empty 1e-4 .. 1e-6, plus a corpus of continua whose programme has an integrality gap so that every back-end must branch) and one pooled dissimilarity, "
        "aligned (best and soft) under three solver configurations: cylp importable (CBC), `import cylp` raising "
        "ImportError (GLPK), CBC raising cvxpy.SolverError (fault injection, GLPK); a spy on cvxpy.Problem.solve "
        "proves which solver ran; the order of the two kinds and of the three configurations varies from case to case; continua of at most 12 units are also "
        "compared with the exact optimum (dynamic programme); a best and a soft alignment computed at the same time by two user threads under each GLPK configuration; 12 % of the small cases are editing sessions (all configurations, an edit of the same continuum "
        "object, all configurations again); non-trivial = >= 2 units and >= 2 non-empty annotators; distinct by SHA-1")
ASSUMPTIONS = [
    "the 'failing' configuration is modelled by cvxpy.SolverError raised from Problem.solve when the CBC solver is "
    "requested (the error class the library itself anticipates)",
    "equality of optima up to |a-b| <= 2e-5*max(1,|a|,|b|), in units of delta_empty when delta_empty < 1",
]
CONFIGS = ["cbc", "glpk", "cbcfail"]
EXPECT = {"cbc": ["CBC"], "glpk": ["GLPK_MI"], "cbcfail": ["CBC", "GLPK_MI"]}
MAXU = {2: 40, 3: 12, 4: 6, 5: 4}


def plan(tier, seed):
    return ac.std_plan(tier)


def check_concurrent_kinds(ctx, case):
    """Two user threads in one process, one computing best alignments and the other soft alignments (each on its own continuum), while CBC
    fails / is not importable: every result is the one the same call gives alone under that configuration."""
    spy, pool = ac.setup(ctx)
    dissim = pool.get(case["dissim"])
    conts = [cases.build_continuum(cs) for cs in case["continua"]]
    with ac.solver_config(spy, case["config"]):
        try:
            ref = [float(conts[0].get_best_alignment(dissim).disorder), float(conts[1].get_best_soft_alignment(dissim).disorder)]
        except Exception as e:
            ctx.fail_exc(f"concurrent-kinds:sequential-reference-raises:{type(e).__name__}", e, monitor="M-CONCURRENT-KINDS")
            return

        def work(k):
            fn = conts[0].get_best_alignment if k == 0 else conts[1].get_best_soft_alignment
            return [fn(dissim) for _ in range(case["repeat"])]
        results = ac.concurrent_calls([(lambda k=k: work(k)) for k in (0, 1)])
    for k, (res, exc) in enumerate(results):
        ctx.count("M-CONCURRENT-KINDS")
        kind = "best" if k == 0 else "soft"
        if exc is not None:
            ctx.fail_exc(f"concurrent-kinds:{kind}:raises:{type(exc).__name__}", exc, monitor="M-CONCURRENT-KINDS")
            continue
        for al in res:
            pr = monitors.check_partition(conts[k], al, cover=(k == 1))
            if pr:
                ctx.fail(f"concurrent-kinds:{kind}:{case['config']}:not-a-{'cover' if k else 'partition'}", {"problems": pr[:4]}, monitor="M-CONCURRENT-KINDS")
                break
            if not oracles.close_at_scale(float(al.disorder), ref[k], dissim.delta_empty):
                ctx.fail(f"concurrent-kinds:{kind}:{case['config']}:disorder-differs-from-the-same-call-alone",
                         {"concurrent": float(al.disorder), "alone": ref[k]}, monitor="M-CONCURRENT-KINDS")
                break


def check_case(ctx, case):
    if case.get("concurrent_kinds"):
        return check_concurrent_kinds(ctx, case)
    if case.get("session"):
        # ONE continuum object and one dissimilarity object: all configurations, an edit of the continuum, all configurations again ...
        continuum = cases.build_continuum(case["continuum"])
        for k, op in enumerate([None] + case["session"]):
            if op is not None:
                ac.apply_edit(continuum, op)
            if not continuum or len(continuum.annotators) < 2:
                continue
            ctx.count("M-SESSION")
            _check(ctx, dict(case, continuum=dict(cases.spec_of(continuum), family=case["continuum"].get("family")), order_seed=case.get("order_seed", 0) + k),
                   continuum)
        return
    _check(ctx, case, cases.build_continuum(case["continuum"]))


def _check(ctx, case, continuum):
    spy, pool = ac.setup(ctx)
    cspec, dspec = case["continuum"], case["dissim"]
    dissim = pool.get(dspec)
    # the order in which the two kinds of alignment and the three configurations follow each other in the process varies from
    # case to case (what an earlier call left behind must not matter)
    kinds = [("best", False), ("soft", True)]
    order_rng = __import__("random").Random(case.get("order_seed", 0))
    if order_rng.random() < 0.5:
        kinds.reverse()
    all_values = {}
    for kind, cover in kinds:
        values = all_values[kind] = {}
        cfgs = list(CONFIGS)
        order_rng.shuffle(cfgs)
        for cfg in cfgs:
            try:
                al, solvers = ac.call_alignment(continuum, dissim, cfg, kind, spy)
            except Exception as e:
                ctx.fail_exc(f"{kind}:{cfg}:raises:{type(e).__name__}", e, monitor="M-SOLVER")
                continue
            ctx.observe(f"solvers[{cfg}]", ",".join(solvers))
            if solvers != EXPECT[cfg]:
                # the configuration did not exercise the back-end it is meant to (recorded; the run is inconclusive if that is
                # so for every case) - what it returned is judged all the same
                ctx.observe("unexpected_solver_sequence", f"{cfg}:{solvers}")
                ctx.count("solver-mismatch")
            else:
                ctx.count(f"cfg:{cfg}")
            ctx.count("M-COVER" if cover else "M-PART")
            pr = monitors.check_partition(continuum, al, cover=cover)
            if pr:
                ctx.fail(f"{kind}:{cfg}:not-a-{'cover' if cover else 'partition'}", {"problems": pr, "solvers": solvers},
                         monitor="M-COVER" if cover else "M-PART")
            prd, recomputed = monitors.check_disorders(continuum, al, dissim)
            values[cfg] = (float(al.disorder), recomputed)
        if "cbc" in values:
            for cfg in ("glpk", "cbcfail"):
                if cfg in values:
                    ctx.count("M-EQ")
                    a, b = values["cbc"], values[cfg]
                    if not oracles.close_at_scale(a[0], b[0], dissim.delta_empty) or not oracles.close_at_scale(a[1], b[1], dissim.delta_empty):
                        ctx.fail(f"{kind}:optimum-differs:{cfg}", {"cbc": a, cfg: b, "what": "(reported, recomputed)"},
                                 monitor="M-EQ")
    # "the same optimal disorder": on continua small enough for the exact dynamic programme every configuration is also compared
    # with the independent optimum (all three could otherwise agree on a wrong answer)
    if cases.spec_num_units(cspec) <= 12:
        for kind, cover in kinds:
            if not all_values.get(kind):
                continue
            opt = oracles.optimum(cspec, dissim, cover=cover, want="dp")
            if not opt["methods"]:
                continue
            ctx.count("M-OPT")
            for cfg, (reported, recomputed) in all_values[kind].items():
                if not oracles.close_at_scale(recomputed, opt["value"], dissim.delta_empty):
                    ctx.fail(f"{kind}:{cfg}:not-the-optimum", {"returned": recomputed, "independent_optimum": opt["value"], "configuration": cfg},
                             monitor="M-OPT")


def run(ctx):
    ac.setup(ctx)
    rng = ctx.rng
    dspecs = cases.gen_pool_specs(rng, ctx.scale(12, 30))
    # medium continua whose candidate table is large (10 000 - 50 000 unitary alignments): a fallback that answers big
    # problems with something cheaper than the exact programme shows here and nowhere else
    big_d = [{"kind": "combined", "alpha": 1.0, "beta": 1.0, "delta": 1.0, "pos": None, "cat": None}, {"kind": "positional", "delta": 1.0}]
    for i in range(ctx.scale(4, 40)):
        sizes = [rng.randint(170, 200), rng.randint(120, 160)] if i % 2 == 0 else [rng.randint(40, 48), rng.randint(36, 42), rng.randint(30, 36)]
        cspec = cases.gen_continuum(rng, n_annot=len(sizes), sizes=sizes, labels=cases.LABELS_SMALL, family="dense")
        case = {"continuum": cspec, "dissim": big_d[(i // 2) % 2]}
        ctx.begin_case(case)
        ctx.observe("family", "large-candidate-table")
        check_case(ctx, case)
    # near-ties: two annotators agree on a unit, a third one places the same unit at a distance swept finely through the
    # point where "one unitary alignment of three" and "a pair plus a singleton" cost the same (2*(2x/2u)^2 = 5 delta_empty:
    # x = u*sqrt(2.5); measured on the unchanged library).  Whichever side of the tie a case is on, every back-end must return the cheaper alignment: a
    # secondary criterion (fewest unitary alignments, perturbed costs) may only act on exact ties
    k_all = list(range(-48, 49))
    for k in k_all:
        if (k + 48) % max(1, ctx.nshards // 2) != (ctx.shard // 2) % max(1, ctx.nshards // 2):
            continue
        u = 8.0
        x = round(u * 2.5 ** 0.5 * 256) / 256 + k / 256.0
        names3 = cases.ANNOTATOR_NAMES[:3]
        order = rng.sample(names3, 3)
        ann = {order[0]: [[0.0, u, "a"], [40.0, 44.0, "b"]], order[1]: [[0.0, u, "a"], [40.0, 44.5, "b"]], order[2]: [[x, x + u, "a"], [40.5, 44.0, "b"]]}
        case = {"continuum": {"ann": {a: ann[a] for a in names3}, "family": "near-tie"}, "dissim": big_d[(k + 48) % 2]}
        ctx.begin_case(case)
        ctx.observe("family", "near-tie-sweep")
        check_case(ctx, case)
    # a best and a soft alignment computed at the same time by two user threads, under each GLPK configuration
    for k0 in range(ctx.scale(4, 40)):
        cs = [cases.gen_continuum(rng, n_annot=3, sizes=[rng.randint(3, 5) for _ in range(3)], labels=cases.LABELS_SMALL,
                                  family=rng.choice(["dense", "longoverlap", "grid"])) for _ in range(2)]
        case = {"concurrent_kinds": True, "continua": cs, "dissim": big_d[k0 % 2], "config": ["cbcfail", "glpk", "cbcfail2"][k0 % 3], "repeat": 8}
        ctx.begin_case(case)
        ctx.observe("family", "concurrent best + soft")
        check_case(ctx, case)
    for _ in range(2):      # two editing sessions first, whatever the time budget (deciding monitor)
        cs0 = cases.gen_continuum(rng, n_annot=3, max_units=3, allow_empty=False, labels=cases.LABELS_SMALL)
        case = {"continuum": cs0, "dissim": {"kind": "positional", "delta": 1.0}, "order_seed": 3,
                "session": [["add_annotator", "zoe"]] + ac.gen_edit_ops(rng, cs0, cases.LABELS_SMALL, 2)}
        ctx.begin_case(case)
        ctx.observe("family", "session")
        check_case(ctx, case)
    # continua whose partition or cover programme has an integrality gap: every back-end has to branch on them
    hard = ac.hard_mip_cases(ctx, "partition", limit=ctx.scale(14, None)) + ac.hard_mip_cases(ctx, "cover", limit=ctx.scale(6, None), min_gap=1e-3)
    for hc in hard:
        ctx.begin_case(hc)
        ctx.observe("family", "integrality-gap")
        check_case(ctx, hc)
    # very small delta_empty: costs of the order of 1e-5 .. 1e-6, below the absolute tolerances MIP solvers work with
    small_d = [{"kind": "positional", "delta": d_} for d_ in (1e-5, 3e-6, 3e-5)] + \
              [{"kind": "combined", "alpha": 1.0, "beta": 1.0, "delta": d_, "pos": None, "cat": None} for d_ in (1e-5, 1e-6, 1e-4)]
    for i in range(ctx.scale(10, 200)):
        n = rng.choice([3, 3, 4])
        cspec = cases.gen_continuum(rng, n_annot=n, sizes=[rng.randint(2, 5) for _ in range(n)], labels=cases.LABELS_SMALL,
                                    family=rng.choice(["generic", "dense", "longoverlap", "grid"]))
        case = {"continuum": cspec, "dissim": small_d[i % len(small_d)]}
        ctx.begin_case(case)
        ctx.observe("family", "small-delta_empty")
        check_case(ctx, case)
    for _ in range(ctx.scale(150, 3000)):
        if ctx.out_of_time():
            break
        dspec = rng.choice(dspecs)
        labels = cases.dissim_labels(dspec)
        n = rng.choice([2, 2, 3, 3, 4, 5])
        if rng.random() < 0.6:   # dense overlaps, 4-5 annotators: the solvers have to branch (measured: about one such
            n = rng.choice([4, 4, 5])   # continuum in 60 makes GLPK stop early under a 1 % gap)
            k = {4: 6, 5: 4}[n]
            cspec = cases.gen_continuum(rng, n_annot=n, sizes=[k] * n, labels=labels or cases.LABELS_SMALL, family="dense")
        else:
            cspec = cases.gen_continuum(rng, n_annot=n, max_units=rng.randint(1, MAXU[n]),
                                        labels=labels or cases.LABELS_SMALL, min_total=2)
        case = {"continuum": cspec, "dissim": dspec, "order_seed": rng.randrange(10 ** 6)}
        if rng.random() < 0.12 and cases.spec_num_units(cspec) <= 14:
            case["session"] = ac.gen_edit_ops(rng, cspec, labels or cases.LABELS_SMALL, rng.randint(1, 3))
        nonempty = sum(1 for us in cspec["ann"].values() if us)
        ctx.begin_case(case, nontrivial=cases.spec_num_units(cspec) >= 2 and nonempty >= 2)
        ac.observe_case(ctx, case)
        check_case(ctx, case)
    for cfg in CONFIGS:
        if ctx.monitors.get(f"cfg:{cfg}", 0) == 0:
            ctx.inconclusive_because(f"configuration {cfg} never ran with its expected solver sequence {EXPECT[cfg]}")
