"""C09 - disorder (and gamma under delta scaling) are invariant under renaming, translation and scaling."""
import copy

import numpy as np

from .. import cases, oracles
from . import _align_common as ac

TITLE = "Disorder and gamma are invariant under renaming, translation and scaling"
DECIDING = ["M-META-annotators", "M-META-categories", "M-META-shift", "M-META-scale", "M-META-delta", "M-META-delta-gamma"]
LEVEL = "exploration"
RULE = ("metamorphic monitor: the library is run on x and on T(x) and the two results are related; T in {bijective "
        "annotator renaming (order-reversing and random), category renaming (arbitrary for absolute, order-preserving "
        "for precomputed / ordinal, affine for numerical, character substitution for Levenshtein), time shift, positive "
        "time scale, delta_empty -> c*delta_empty in all components}; x = seeded random continua up to 2x60, 3x15, 4x8, "
        "5x5 units with pooled dissimilarities; primary family float32-exact (dyadic times < 4096, integer shifts up to the last integers float32 holds "
        "exactly (2^23 .. 2^24; 2^20 .. 2^21 for a 1/8 grid), power-of-two / small-integer scales, dyadic c and delta_empty factors down to 3e-6 (compared in units of the scaled delta_empty); a block of "
        "heavy-tailed durations (1 .. 1750) under annotator renaming; a block of dense 3x15 continua), secondary family generic float32-representable times; for "
        "delta scaling also compute_gamma under the same numpy seed. non-trivial = continuum with >= 2 units; distinct by "
        "SHA-1 of (continuum, dissimilarity, transformation)")
ASSUMPTIONS = [
    "exact family: |a-b| <= 2e-5*max(1,|a|,|b|) (summation-order rounding only); generic family: 1e-3 relative",
    "gamma under delta scaling: |g-g'| <= 1e-4*max(1,|g|)",
    "numerical categories are renamed by an affine map with positive slope (their order and relative distances are the "
    "dissimilarity's meaning); Levenshtein categories by a character-level bijection (edit distances are preserved)",
]
MAXU = {2: 60, 3: 15, 4: 8, 5: 5}


def plan(tier, seed):
    return ac.std_plan(tier, quick_budget=70, thorough_budget=700)


# -------------------------------------------------------------------------------------------- transformations
def t_annotators(rng, cspec, dspec):
    names = sorted(cspec["ann"].keys())
    pool = ["zz9", "m", "Aa", "b2", "alex", "Zed", "k", "0", "eve", "bob", "carl"]
    if rng.random() < 0.5:   # order-reversing
        new = sorted(rng.sample(pool, len(names)), reverse=True)
    else:
        new = rng.sample(pool, len(names))
    mapping = dict(zip(names, new))
    return {"ann": {mapping[a]: us for a, us in cspec["ann"].items()}, "family": cspec.get("family")}, dspec, 1.0, {"map": mapping}


def _cat_component(dspec):
    if dspec["kind"] == "combined":
        return dspec.get("cat")
    return dspec if dspec["kind"] != "positional" else None


def t_categories(rng, cspec, dspec):
    d2 = copy.deepcopy(dspec)
    comp = _cat_component(d2)
    labels = sorted(set(cases.spec_labels(cspec)) | set((comp or {}).get("cats", [])))
    kind = (comp or {"kind": "absolute"})["kind"]
    if kind == "absolute" or comp is None:
        new = rng.sample(["q", "Zz", "k9", "é", "lab", "0", "mm", "x y", "W"], len(labels)) if len(labels) <= 9 else None
        if new is None:
            return None
        mapping = dict(zip(labels, new))
    elif kind == "precomputed":
        mapping = {l: f"{i:03d}-{l[::-1]}" for i, l in enumerate(sorted(labels))}     # order-preserving
        comp["cats"] = [mapping[c] for c in comp["cats"]]
    elif kind == "ordinal":
        mapping = {l: "r_" + l[::-1] for l in labels}          # positions travel with the labels (supplied order kept)
        comp["cats"] = [mapping[c] for c in comp["cats"]]
    elif kind == "numerical":
        slope = rng.choice([2, 3, 10])
        mapping = {l: str(int(float(l) * slope)) if float(l) == int(float(l)) else repr(float(l) * slope) for l in labels}
        comp["cats"] = [mapping[c] for c in comp["cats"]]
    elif kind == "levenshtein":
        alphabet = sorted({ch for l in labels for ch in l})
        sub = dict(zip(alphabet, rng.sample("αβγδεζηθικλμνξοπρστυφχψω0123456789", len(alphabet))))
        mapping = {l: "".join(sub[ch] for ch in l) for l in labels}
        comp["cats"] = [mapping[c] for c in comp["cats"]]
    else:
        return None
    c2 = {"ann": {a: [[s, e, mapping.get(l, l)] for s, e, l in us] for a, us in cspec["ann"].items()}, "family": cspec.get("family")}
    return c2, d2, 1.0, {"map": mapping}


def t_shift(rng, cspec, dspec):
    k = float(rng.choice([1, 7, 64, 1000, -3, -250]))
    integer_times = all(float(u[0]).is_integer() and float(u[1]).is_integer() for us in cspec["ann"].values() for u in us)
    if integer_times and rng.random() < 0.5:
        # integer times stay float32-exact up to 2**24: far translations must not matter either
        k = float(rng.choice([2 ** 17, -2 ** 18, 10 ** 6, 2 ** 20, -2 ** 21, 3 * 10 ** 5]))
        top = max(abs(x) for us in cspec["ann"].values() for u in us for x in u[:2])
        if top < 2 ** 19 and rng.random() < 0.5:
            # ... up to the last integers float32 holds exactly (every time and every difference stays exact there; a
            # kernel that adds two times instead of subtracting them does not)
            k = float(rng.choice([2 ** 23 + 1, 9000001, 12345678, 16000000, -(2 ** 23) - 5, -16000000]))
    eighths = all(float(x * 8).is_integer() for us in cspec["ann"].values() for u in us for x in u[:2])
    if not integer_times and eighths and rng.random() < 0.5:
        top = max(abs(x) for us in cspec["ann"].values() for u in us for x in u[:2])
        if top < 2 ** 19:
            k = float(rng.choice([2 ** 20, 2 ** 20 + 2 ** 19 + 3, -(2 ** 20) - 77]))     # 1/8 grid: exact below 2**21
    return {"ann": {a: [[s + k, e + k, l] for s, e, l in us] for a, us in cspec["ann"].items()},
            "family": cspec.get("family")}, dspec, 1.0, {"shift": k}


def t_scale(rng, cspec, dspec):
    k = float(rng.choice([2, 4, 0.5, 0.25, 3, 5, 8]))
    return {"ann": {a: [[cases.f32(s * k), cases.f32(e * k), l] for s, e, l in us] for a, us in cspec["ann"].items()},
            "family": cspec.get("family")}, dspec, 1.0, {"scale": k}


def t_delta(rng, cspec, dspec):
    c = float(rng.choice([2, 4, 0.5, 0.25, 3, 1.5, 2.0 ** -16, 1e-5, 3e-6]))   # down to costs below a MIP solver's absolute tolerances
    d2 = copy.deepcopy(dspec)

    def scale(d):
        d["delta"] = d["delta"] * c
        if d["kind"] == "combined":
            if d.get("pos"):
                d["pos"]["delta"] = d["pos"]["delta"] * c
            if d.get("cat"):
                scale(d["cat"])
    if d2["kind"] == "combined" and (d2.get("cat") or d2.get("pos")) and rng.random() < 0.4:
        # only the combined dissimilarity is given the new delta_empty; its components are handed over as they were built (the
        # combined dissimilarity applies its own delta_empty to them)
        d2["delta"] = d2["delta"] * c
        return cspec, d2, c, {"delta_factor": c, "components": "left at their own delta_empty"}
    scale(d2)
    return cspec, d2, c, {"delta_factor": c}


TRANSFORMS = {"annotators": t_annotators, "categories": t_categories, "shift": t_shift, "scale": t_scale, "delta": t_delta}


def check_case(ctx, case):
    _, pool = ac.setup(ctx)
    cspec, dspec, tname = case["continuum"], case["dissim"], case["transform"]
    rng = ctx.rng if "t_seed" not in case else __import__("random").Random(case["t_seed"])
    tr = TRANSFORMS[tname](rng, cspec, dspec)
    if tr is None:
        return
    c2spec, d2spec, factor, info = tr
    exact = case["family_exact"]
    # only the time transformations do arithmetic on the (float32) times: renamings and delta scaling leave every pair cost
    # bit-identical up to summation order, whatever the family
    rel = 2e-5 if (exact or tname in ("annotators", "categories", "delta")) else 1e-3
    try:
        d1, d2 = pool.get(dspec), pool.get(d2spec)
        c1, c2 = cases.build_continuum(cspec), cases.build_continuum(c2spec)
        a1 = c1.get_best_alignment(d1)
        a2 = c2.get_best_alignment(d2)
    except Exception as e:
        ctx.fail_exc(f"{tname}:raises:{type(e).__name__}", e, monitor=f"M-META-{tname}")
        return
    ctx.count(f"M-META-{tname}")
    x, y = float(a1.disorder), float(a2.disorder)
    if not oracles.close_at_scale(x * factor, y, min(1.0, factor) if tname == "delta" else 1.0, rel=rel):
        ctx.fail(f"disorder-not-invariant-under:{tname}", {"original": x, "transformed": y, "expected": x * factor,
                                                           "transformation": info, "dissim": dspec["kind"]},
                 monitor=f"M-META-{tname}")
        return
    if tname == "delta" and case.get("gamma"):
        ctx.count("M-META-delta-gamma")
        try:
            # a precision level (second batch of samples sized from the coefficient of variation, which has no unit) only
            # with power-of-two factors: every float32 disorder is then scaled exactly and the batch size cannot sit on a
            # rounding edge
            prec = case.get("precision") if factor in (2.0, 4.0, 0.5, 0.25, 2.0 ** -16) else None
            ctx.observe("delta_gamma_precision", str(prec))
            np.random.seed(case["np_seed"])
            g1 = c1.compute_gamma(d1, n_samples=case["n_samples"], sampler=_sampler(case["sampler"]), precision_level=prec)
            np.random.seed(case["np_seed"])
            g2 = c2.compute_gamma(d2, n_samples=case["n_samples"], sampler=_sampler(case["sampler"]), precision_level=prec)
            if g1.n_samples != g2.n_samples:
                ctx.fail("number-of-samples-changes-under-delta-scaling", {"n_samples": [int(g1.n_samples), int(g2.n_samples)], "factor": factor,
                                                                           "precision": prec}, monitor="M-META-delta-gamma")
        except Exception as e:
            ctx.fail_exc(f"delta:gamma-raises:{type(e).__name__}", e, monitor="M-META-delta-gamma")
            return
        ga, gb = float(g1.gamma), float(g2.gamma)
        same = (ga == gb) or (ga != ga and gb != gb) or (abs(ga - gb) <= 1e-4 * max(1.0, abs(ga)))
        if float(g1.expected_disorder) == 0.0 or float(g2.expected_disorder) == 0.0:
            ctx.observe("gamma_undefined_expected_disorder_zero", True)
            same = True   # 1 - observed/0: the ratio is undefined on both sides, nothing to compare
        if not same:
            ctx.fail("gamma-changes-under-delta-scaling", {"gamma": ga, "gamma_scaled": gb, "factor": factor,
                                                           "observed": [float(g1.observed_disorder), float(g2.observed_disorder)],
                                                           "expected": [float(g1.expected_disorder), float(g2.expected_disorder)]},
                     monitor="M-META-delta-gamma")
        e1, e2 = float(g1.expected_disorder), float(g2.expected_disorder)
        if not oracles.close_at_scale(e1 * factor, e2, min(1.0, factor), rel=1e-4):
            ctx.fail("expected-disorder-not-scaled-by-the-delta-factor", {"expected": e1, "scaled": e2, "factor": factor},
                     monitor="M-META-delta-gamma")


def _sampler(name):
    import pygamma_agreement as pa
    if name == "shuffle":
        return pa.ShuffleContinuumSampler()
    return pa.StatisticalContinuumSampler()


def run(ctx):
    ac.setup(ctx)
    rng = ctx.rng
    dspecs = cases.gen_pool_specs(rng, ctx.scale(10, 24), allow_component_delta=False)
    dspecs += [{"kind": "positional", "delta": 1.0},
               {"kind": "combined", "alpha": 1.0, "beta": 1.0, "delta": 1.0, "pos": None, "cat": None}]
    names = list(TRANSFORMS)
    for i in range(8):       # delta scaling with gamma first, whatever the time budget (deciding monitor)
        cs0 = cases.gen_continuum(rng, n_annot=2, max_units=4, allow_empty=False, labels=cases.LABELS_SMALL, family="dyadic")
        case = {"continuum": cs0, "dissim": {"kind": "combined", "alpha": 1.0, "beta": 1.0, "delta": 1.0, "pos": None, "cat": None},
                "transform": "delta", "family_exact": True, "t_seed": i, "gamma": True, "np_seed": 100 + i, "n_samples": 3, "precision": 0.1,
                "sampler": "statistical"}
        ctx.begin_case(case)
        ctx.observe("transform", "delta")
        check_case(ctx, case)
    # every transformation on a few small continua first, whatever the time budget (deciding monitors)
    first_d = [{"kind": "positional", "delta": 1.0}, {"kind": "combined", "alpha": 1.0, "beta": 1.0, "delta": 1.0, "pos": None, "cat": None}]
    for i in range(12):
        tname0 = names[i % len(names)]
        cs0 = cases.gen_continuum(rng, n_annot=rng.choice([2, 3]), max_units=4, allow_empty=False, labels=cases.LABELS_SMALL, family="dyadic")
        case = {"continuum": cs0, "dissim": first_d[i % 2], "transform": tname0, "family_exact": True, "t_seed": 1000 + i}
        ctx.begin_case(case)
        ctx.observe("transform", tname0)
        check_case(ctx, case)
    # dense 3x15 continua under annotator renaming only: this is where a path-dependent solver result (early stop inside
    # a gap, tie-breaking on column order) shows - about one such continuum in 40 under a 1 % gap (measured)
    dense_d = [{"kind": "combined", "alpha": 1.0, "beta": 1.0, "delta": 1.0, "pos": None, "cat": None}, {"kind": "positional", "delta": 1.0}]
    for i in range(ctx.scale(50, 600)):
        if ctx.time_left() < 0.7 * ctx.time_budget:
            break
        fam = rng.choice(["dense", "dense", "longoverlap"])
        cspec = cases.gen_continuum(rng, n_annot=3, sizes=[15] * 3, labels=cases.LABELS_SMALL, family=fam, names=cases.ANNOTATOR_NAMES[:3])
        case = {"continuum": cspec, "dissim": dense_d[i % 2], "transform": "annotators", "family_exact": False, "t_seed": rng.randrange(2 ** 31)}
        ctx.begin_case(case)
        ctx.observe("transform", "annotators(dense 3x15 block)")
        check_case(ctx, case)
    # continua with an integrality gap (the solver has to branch) under annotator renaming
    for hc in ac.hard_mip_cases(ctx, "partition", limit=ctx.scale(20, None)):
        if ctx.time_left() < 0.55 * ctx.time_budget:
            break
        case = dict(hc, transform="annotators", family_exact=False, t_seed=rng.randrange(2 ** 31))
        ctx.begin_case(case)
        ctx.observe("transform", "annotators(integrality-gap corpus)")
        check_case(ctx, case)
    # heavy-tailed durations under annotator renaming: which annotator comes first alphabetically must not decide which
    # far-but-long partner units are considered
    for i in range(ctx.scale(60, 1500)):
        if ctx.time_left() < 0.45 * ctx.time_budget:
            break
        n = rng.choice([2, 2, 3])
        cspec = cases.gen_continuum(rng, n_annot=n, sizes=[rng.randint(4, 12) if n == 2 else rng.randint(3, 6) for _ in range(n)],
                                    labels=cases.LABELS_SMALL, family="heavytail")
        case = {"continuum": cspec, "dissim": dense_d[i % 2], "transform": "annotators", "family_exact": True, "t_seed": rng.randrange(2 ** 31)}
        ctx.begin_case(case)
        ctx.observe("transform", "annotators(heavy-tailed block)")
        check_case(ctx, case)
    # "bridged" motifs under annotator renaming: two short units far apart (their own dissimilarity is several delta_empty)
    # at the two ends of one long unit of a third annotator - the three belong together only through the long one, so no
    # pair of annotators may be given a say on its own
    for i in range(ctx.scale(60, 1500)):
        if ctx.time_left() < 0.35 * ctx.time_budget:
            break
        n = rng.choice([3, 3, 4])
        names_ = cases.ANNOTATOR_NAMES[:n]
        ann = {a: [] for a in names_}
        t = 0.0
        for _ in range(rng.randint(1, 4)):
            u = float(rng.choice([1, 1, 2, 4]))
            g = rng.choice([2.0, 2.125, 2.25, 2.5, 2.75, 3.0]) * u
            ra, rb, rc = rng.sample(names_, 3)
            ann[ra].append([t, t + u, rng.choice(cases.LABELS_SMALL)])
            ann[rb].append([t + g, t + g + u, rng.choice(cases.LABELS_SMALL)])
            ann[rc].append([t - rng.choice([0.0, 0.0, 0.25]), t + g + u + rng.choice([0.0, 0.0, 0.25]), rng.choice(cases.LABELS_SMALL)])
            for other in names_:
                if other not in (ra, rb, rc) and rng.random() < 0.5:
                    ann[other].append([t + rng.choice([0.0, 0.5]), t + g + u, rng.choice(cases.LABELS_SMALL)])
            t += g + u + float(rng.randint(8, 20))
        if not all(ann.values()):
            for a in names_:
                if not ann[a]:
                    ann[a].append([t, t + 2.0, rng.choice(cases.LABELS_SMALL)])
        cspec = {"ann": {a: sorted(us) for a, us in ann.items()}, "family": "bridged"}
        case = {"continuum": cspec, "dissim": dense_d[i % 2], "transform": "annotators", "family_exact": True, "t_seed": rng.randrange(2 ** 31)}
        ctx.begin_case(case)
        ctx.observe("transform", "annotators(bridged block)")
        check_case(ctx, case)
    for i in range(ctx.scale(150, 5000)):
        if ctx.out_of_time():
            break
        dspec = rng.choice(dspecs)
        labels = cases.dissim_labels(dspec) or cases.LABELS_SMALL
        n = rng.choice([2, 2, 3, 3, 4, 5])
        exact = rng.random() < 0.7
        fam = rng.choice(["dyadic", "grid", "touching", "longoverlap", "tiny", "mixeddur", "heavytail", "heavytail"]) if exact else rng.choice(["generic", "nested", "dense", "dense"])
        big = rng.random() < 0.35
        mx = MAXU[n] if big else max(2, MAXU[n] // 3)
        if fam == "dense":       # dense overlaps, >= 3 annotators: the solver has to branch, path-dependent early stops show
            n = rng.choice([3, 3, 4, 5])
            cspec = cases.gen_continuum(rng, n_annot=n, sizes=[{3: 15, 4: 7, 5: 5}[n]] * n, labels=labels, family="dense")
        else:
            cspec = cases.gen_continuum(rng, n_annot=n, max_units=mx, labels=labels, family=fam, min_total=2)
        tname = names[i % len(names)]
        case = {"continuum": cspec, "dissim": dspec, "transform": tname, "family_exact": exact, "t_seed": rng.randrange(2 ** 31)}
        if tname == "delta" and cases.spec_num_units(cspec) <= 16 and all(cspec["ann"].values()) and rng.random() < 0.6:
            case.update({"gamma": True, "np_seed": rng.randrange(2 ** 31), "n_samples": rng.randint(2, 6), "precision": rng.choice([None, 0.1, 0.2, 0.3]),
                         "sampler": rng.choice(["statistical", "shuffle"])})
        ctx.begin_case(case, nontrivial=cases.spec_num_units(cspec) >= 2)
        ctx.observe("transform", tname)
        ctx.observe("family", fam)
        ctx.observe("dissim", dspec["kind"])
        ctx.observe("units_bucket", (cases.spec_num_units(cspec) // 10) * 10)
        check_case(ctx, case)
