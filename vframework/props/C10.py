"""C10 - fast alignment terminates with a valid, never-better-than-optimal alignment; fast-mode gamma picks the
exact algorithm when windowing is estimated to be disadvantageous."""
import logging

import numpy as np

from .. import cases, monitors, oracles
from . import _align_common as ac

TITLE = "Fast alignment terminates with a valid, never-better-than-optimal alignment"
DECIDING = ["M-PROG", "M-PART", "M-DIS", "M-NOT-BETTER", "M-FULL-WINDOW", "M-GAMMA-MODE", "M-FAST-CONCURRENT", "M-FAST-SESSION"]
LEVEL = "exploration"
RULE = ("seeded random continua biased towards nested and long-overlapping units (the family in which every windowed "
        "unitary alignment can reach past the window limit), empty annotators, ties, 2-5 annotators x every window size "
        "1..ceil(units/annotators)+1 x pooled dissimilarities; termination is decided on logical progress (units "
        "remaining at each window iteration must decrease; 3 stagnant iterations = non-termination), never on a "
        "clock; the result is checked to be a partition with a disorder matching its units, >= the exact best "
        "alignment's, and equal to it when window*annotators >= units; plus fast-mode compute_gamma runs on small "
        "(windowing disadvantageous) and larger sparse continua (windowing advantageous) with call counters on "
        "get_fast_alignment, incl. two-step histories on one continuum object (large, then shrunk); one case in six is an editing session (fast-align, "
        "add_annotator / merge of a unit-less annotator / add / remove / far outlier / reset_bounds on the same continuum object, fast-align again with the same "
        "dissimilarity object and window); a block in which one continuum object is fast-aligned by 8 user threads at once. non-trivial = continuum with >= 3 units; distinct by SHA-1 of (continuum, dissimilarity, window)")
ASSUMPTIONS = [
    "the fast loop is a deterministic function of the remaining units, so an iteration that consumes nothing repeats "
    "forever: stagnation is non-termination (no wall-clock involved)",
    "'windowing is estimated to be disadvantageous' is read off the documented observable: the window size recorded on "
    "the continuum stays infinite (and the library logs 'Fast-gamma disadvantageous')",
    "tolerance |a-b| <= 2e-5*max(1,|a|,|b|)",
]


def plan(tier, seed):
    p = ac.std_plan(tier, quick_budget=75, thorough_budget=700)
    if tier == "thorough":   # the repository's own suite (test_fast_gamma, test_soft_and_fast) under M-PROG / M-PART / M-DIS
        p["shards"].append({"env": {}, "params": {"suite": "prog,part,dis"}})
        p["timeout"] = 3000
    return p


_installed = {}


def _install(ctx):
    ac.setup(ctx)
    if "prog" not in _installed:
        monitors.install_progress_monitor(limit=3)
        _installed["prog"] = True


def check_alignment_case(ctx, case):
    _, pool = ac.setup(ctx)
    cspec, dspec = case["continuum"], case["dissim"]
    dissim = pool.get(dspec)
    continuum = cases.build_continuum(cspec)
    if case.get("session"):
        # ONE continuum object and one dissimilarity object: fast-align with every window, edit, fast-align again ...
        for op in [None] + case["session"]:
            if op is not None:
                ac.apply_edit(continuum, op)
            if not continuum or len(continuum.annotators) < 2:
                continue
            ctx.count("M-FAST-SESSION")
            now = dict(cases.spec_of(continuum), family=cspec.get("family"))
            _check_windows(ctx, case, continuum, now, dissim)
        return
    _check_windows(ctx, case, continuum, cspec, dissim)


def _check_windows(ctx, case, continuum, cspec, dissim):
    n = len(cspec["ann"])
    nunits = cases.spec_num_units(cspec)
    try:
        best = continuum.get_best_alignment(dissim)
    except Exception as e:
        ctx.fail_exc(f"best-raises:{type(e).__name__}", e, monitor="M-NOT-BETTER")
        return
    best_d = float(best.disorder)
    for w in case["windows"]:
        try:
            fast = continuum.get_fast_alignment(dissim, w)
        except monitors.Stagnation as e:
            ctx.fail("fast-alignment-does-not-terminate", {"window": w, "message": str(e)}, monitor="M-PROG")
            continue
        except Exception as e:
            ctx.fail_exc(f"fast-raises:{type(e).__name__}", e, monitor="M-PROG")
            continue
        ctx.count("M-PART")
        pr = monitors.check_partition(continuum, fast)
        if pr:
            ctx.fail("fast-not-a-partition", {"window": w, "problems": pr}, monitor="M-PART")
            continue
        ctx.count("M-DIS")
        # for times float32 cannot hold exactly the reference takes its pair costs from the compiled kernel on float32 arrays
        pr, ref = monitors.check_disorders(continuum, fast, dissim, via="d_mat" if cspec.get("family") == "coarse" else "d")
        if pr:
            ctx.fail("fast-disorder-does-not-match-units", {"window": w, "problems": pr}, monitor="M-DIS")
        fd = float(fast.disorder)
        ctx.count("M-NOT-BETTER")
        if fd < best_d and not oracles.close(fd, best_d):
            ctx.fail("fast-better-than-optimum", {"window": w, "fast": fd, "best": best_d, "recomputed_fast": ref},
                     monitor="M-NOT-BETTER")
        ctx.observe("fast_equals_best", oracles.close(fd, best_d))
        if w * n >= nunits:
            ctx.count("M-FULL-WINDOW")
            if not oracles.close(fd, best_d):
                ctx.fail("full-window-differs-from-best", {"window": w, "fast": fd, "best": best_d, "units": nunits,
                                                            "annotators": n}, monitor="M-FULL-WINDOW")


class _LogCatcher(logging.Handler):
    def __init__(self):
        super().__init__(level=logging.WARNING)
        self.messages = []

    def emit(self, record):
        self.messages.append(record.getMessage())


def check_gamma_case(ctx, case):
    """fast-mode compute_gamma: exact algorithm iff the recorded window size stays infinite."""
    import pygamma_agreement.continuum as pc
    _, pool = ac.setup(ctx)
    cspec, dspec = case["continuum"], case["dissim"]
    dissim = pool.get(dspec)
    continuum = cases.build_continuum(cspec)
    if case.get("shrink_to"):
        # multi-step history on ONE continuum object: a fast gamma on the large continuum (window recorded), then most
        # units are removed and the fast gamma below runs on the same object, now too small for windowing to pay off
        try:
            np.random.seed(case["np_seed"] ^ 0x5a5a)
            continuum.compute_gamma(dissim, n_samples=1, fast=True)
            ctx.observe("history_first_window", "inf" if continuum.best_window_size == np.inf else "finite")
            for a, u in list(continuum)[case["shrink_to"]:]:
                continuum.remove(a, u)
            for a in list(continuum.annotators):
                if not len(continuum[a]):
                    from pyannote.core import Segment
                    continuum.add(a, Segment(0.0, 1.0), cases.LABELS_SMALL[0])
        except monitors.Stagnation as e:
            ctx.fail("fast-alignment-does-not-terminate", {"in": "compute_gamma(fast=True)", "message": str(e)}, monitor="M-PROG")
            return
        except Exception as e:
            ctx.fail_exc(f"fast-gamma-raises:{type(e).__name__}", e, monitor="M-GAMMA-MODE")
            return
    calls = {"fast": [], "best_top": 0}
    depth = {"fast": 0}
    orig_fast, orig_best = pc.Continuum.get_fast_alignment, pc.Continuum.get_best_alignment
    import threading
    lock = threading.Lock()
    tl = threading.local()

    def fast(self, dissimilarity, window_size):
        with lock:
            calls["fast"].append((window_size, self.best_window_size))
        tl.d = getattr(tl, "d", 0) + 1
        try:
            return orig_fast(self, dissimilarity, window_size)
        finally:
            tl.d -= 1

    def best(self, dissimilarity):
        if getattr(tl, "d", 0) == 0:
            with lock:
                calls["best_top"] += 1
        return orig_best(self, dissimilarity)

    catcher = _LogCatcher()
    logging.getLogger().addHandler(catcher)
    pc.Continuum.get_fast_alignment, pc.Continuum.get_best_alignment = fast, best
    try:
        np.random.seed(case["np_seed"])
        try:
            res = continuum.compute_gamma(dissim, n_samples=case["n_samples"], fast=True,
                                          sampler=_sampler(case.get("sampler")))
        except monitors.Stagnation as e:
            ctx.fail("fast-alignment-does-not-terminate", {"in": "compute_gamma(fast=True)", "message": str(e)}, monitor="M-PROG")
            return
        except Exception as e:
            ctx.fail_exc(f"fast-gamma-raises:{type(e).__name__}", e, monitor="M-GAMMA-MODE")
            return
    finally:
        pc.Continuum.get_fast_alignment, pc.Continuum.get_best_alignment = orig_fast, orig_best
        logging.getLogger().removeHandler(catcher)
    ctx.count("M-GAMMA-MODE")
    bw = continuum.best_window_size
    n_align = 1 + len(res.chance_alignments)
    said_disadvantageous = any("disadvantageous" in m for m in catcher.messages)
    ctx.observe("gamma_mode", "exact(window=inf)" if bw == np.inf else "windowed")
    detail = {"recorded_window": None if bw == np.inf else int(bw), "fast_calls": calls["fast"][:5], "n_fast_calls": len(calls["fast"]),
              "top_level_best_calls": calls["best_top"], "alignments": n_align, "warned_disadvantageous": said_disadvantageous}
    if bw == np.inf:
        if calls["fast"]:
            ctx.fail("windowed-algorithm-used-although-disadvantageous", detail, monitor="M-GAMMA-MODE")
        if calls["best_top"] < n_align:
            ctx.fail("exact-algorithm-not-used-although-disadvantageous", detail, monitor="M-GAMMA-MODE")
    else:
        if said_disadvantageous:
            ctx.fail("window-recorded-although-estimated-disadvantageous", detail, monitor="M-GAMMA-MODE")
        if len(calls["fast"]) != n_align or any(w != bw for w, _ in calls["fast"]):
            ctx.fail("windowed-algorithm-not-used-with-the-recorded-window", detail, monitor="M-GAMMA-MODE")
    # the alignments of a fast gamma are valid partitions whose disorders match their units
    ctx.count("M-PART")
    pr = monitors.check_partition(continuum, res.best_alignment)
    if pr:
        ctx.fail("fast-gamma-observed-alignment-not-a-partition", {"problems": pr}, monitor="M-PART")
    ctx.count("M-DIS")
    pr, _ = monitors.check_disorders(continuum, res.best_alignment, dissim)
    if pr:
        ctx.fail("fast-gamma-observed-disorder-mismatch", {"problems": pr}, monitor="M-DIS")


def _sampler(name):
    import pygamma_agreement as pa
    if name == "shuffle":
        return pa.ShuffleContinuumSampler()
    return None


def check_case(ctx, case):
    _install(ctx)
    if "concurrent" in case:
        from . import _align_common as ac
        return ac.check_concurrent_case(ctx, case, "M-FAST-CONCURRENT")
    if case["type"] == "gamma":
        check_gamma_case(ctx, case)
    else:
        check_alignment_case(ctx, case)


FAMS = ["longoverlap", "longoverlap", "nested", "nested", "grid", "touching", "identical", "dyadic", "generic", "tiny", "mixeddur", "mixeddur",
        "coarse", "coarse"]


def run(ctx):
    _install(ctx)
    if ctx.params.get("suite"):
        from ..suite import run_suite_under_monitors
        run_suite_under_monitors(ctx, ctx.params["suite"])
        return
    rng = ctx.rng
    dspecs = cases.gen_pool_specs(rng, ctx.scale(10, 24))
    dspecs += [{"kind": "positional", "delta": 1.0},
               {"kind": "combined", "alpha": 1.0, "beta": 1.0, "delta": 1.0, "pos": None, "cat": None}]
    # the minimal non-terminating input found at design time (repaired by 0433f93) stays in the workload
    d6 = {"ann": {"an0": [[12, 13, "a"], [14, 29, "a"], [16, 17, "a"], [19, 22, "a"]],
                  "an1": [[0, 1, "a"], [19, 22, "a"]],
                  "an2": [[0, 1, "a"], [7, 9, "a"], [10, 12, "a"], [16, 31, "a"], [19, 34, "a"]]}, "family": "D6-witness"}
    case = {"type": "align", "continuum": d6, "dissim": {"kind": "positional", "delta": 1.0}, "windows": [1, 2, 3, 4, 5]}
    ctx.begin_case(case)
    check_case(ctx, case)
    # one continuum object fast-aligned by several user threads at once
    from . import _align_common as ac
    for _ in range(ctx.scale(4, 60)):
        case = ac.gen_concurrent_case(rng, "fast")
        ctx.begin_case(case)
        ctx.observe("family", "concurrent-threads")
        check_case(ctx, case)
    n_cases = ctx.scale(140, 5000)
    for i in range(n_cases):
        if ctx.out_of_time():
            break
        dspec = rng.choice(dspecs)
        labels = cases.dissim_labels(dspec)
        n = rng.randint(2, 5)
        mx = {2: 8, 3: 6, 4: 5, 5: 4}[n]
        cspec = cases.gen_continuum(rng, n_annot=n, max_units=mx if rng.random() < 0.6 else rng.randint(1, mx),
                                    labels=labels or cases.LABELS_SMALL, min_total=2, family=rng.choice(FAMS))
        if n >= 3 and rng.random() < 0.3:      # an annotator without units: the window quota still counts it
            victim = rng.choice(sorted(cspec["ann"].keys()))
            if sum(len(us) for a, us in cspec["ann"].items() if a != victim) >= 2:
                cspec["ann"][victim] = []
        nunits = cases.spec_num_units(cspec)
        wmax = -(-nunits // n) + 1
        windows = list(range(1, wmax + 1))
        if len(windows) > 4:
            windows = sorted(rng.sample(windows[:-2], 2) + windows[-2:])
        case = {"type": "align", "continuum": cspec, "dissim": dspec, "windows": windows}
        if i % 6 == 1 and cspec.get("family") != "coarse":
            case["session"] = ac.gen_edit_ops(rng, cspec, labels or cases.LABELS_SMALL, rng.randint(1, 3))
            # one window size asked again and again (the very same call before and after each edit), or two alternating ones
            case["windows"] = [rng.choice(windows)] if rng.random() < 0.6 else rng.sample(windows, min(2, len(windows)))
        ctx.begin_case(case, nontrivial=nunits >= 3)
        ctx.observe("family", cspec["family"])
        ctx.observe("annotators", n)
        ctx.observe("dissim", dspec["kind"])
        for w in windows:
            ctx.observe("window", w)
        check_case(ctx, case)
    # fast-mode gamma: small (exact) and larger sparse continua (windowed)
    gd = {"kind": "combined", "alpha": 1.0, "beta": 1.0, "delta": 1.0, "pos": None, "cat": None}
    shapes_windowed = [(3, 40), (4, 14), (4, 18), (5, 12)]
    for i in range(ctx.scale(10, 120)):
        if ctx.time_left() < -120:
            break
        if i % 2 == 0:
            n, k = rng.choice(shapes_windowed)
            cspec = cases.gen_continuum(rng, n_annot=n, sizes=[k] * n, family="grid", labels=cases.LABELS_SMALL)
        else:
            n = rng.randint(2, 4)
            cspec = cases.gen_continuum(rng, n_annot=n, max_units=5, family=rng.choice(["grid", "longoverlap", "nested"]),
                                        labels=cases.LABELS_SMALL, allow_empty=False)
        case = {"type": "gamma", "continuum": cspec, "dissim": gd, "n_samples": rng.randint(1, 3),
                "np_seed": rng.randrange(2 ** 31), "sampler": rng.choice([None, "shuffle"])}
        if i % 4 == 0:
            case["shrink_to"] = rng.randint(4, 9)
        ctx.begin_case(case)
        check_case(ctx, case)
