"""C11 - the soft alignment is a minimum-disorder cover (and never costs more than the best partition)."""
from .. import cases, monitors, oracles
from . import _align_common as ac

TITLE = "Soft alignment is a minimum-disorder cover"
DECIDING = ["M-COVER", "M-OPT", "M-SESSION", "M-COVER-CONCURRENT"]
LEVEL = "exploration"
RULE = ("seeded random continua up to 2x9, 3x9, 4x5, 5x3 units x pooled dissimilarities x both MIP back-ends; the "
        "returned soft alignment is checked to be a well-formed cover (M-COVER) and its disorder compared with the "
        "unpruned exact minimum cover (bitmask DP <= 14 units, HiGHS MILP with A x >= 1) and with the best partition "
        "of the same continuum; thorough tier adds the complete '2 annotators x <= 2 units' and '3 annotators x <= 2 "
        "units' grids; a block with delta_empty 1e-4 .. 1e-6 (compared in units of delta_empty); a corpus of continua whose cover programme has an integrality gap (mined off-line, judged at run time); 10 % of the random cases are editing sessions (compute, edit the same continuum object, compute again); a block in which "
        "one continuum object is soft-aligned by 8 user threads at once with different dissimilarities; non-trivial = >= 2 units and >= 2 non-empty annotators; distinct by SHA-1 of the case")
ASSUMPTIONS = [
    "pair costs come from the compiled d_mat on arrays built by the harness; enumeration, pair mean and optimisation "
    "are independent of the library",
    "tolerance |a-b| <= 2e-5*max(1,|a|,|b|)",
    "oracle methods that disagree with each other make the run inconclusive, never a violation",
]


def plan(tier, seed):
    return ac.std_plan(tier)


def _oracle_doubt(ctx, what):
    """The ORACLE is in doubt on this case (its methods disagree, or the library found something cheaper than its
    'optimum'): the case is not judged; the run is inconclusive only if that happens on more than a few cases."""
    ctx.count("oracle-in-doubt")
    ctx.observe("oracle_in_doubt", what[:160])
    if ctx.monitors["oracle-in-doubt"] > max(3, 0.01 * ctx.evaluations):
        ctx.inconclusive_because("the independent oracle was in doubt on more than 1 % of the cases, e.g. " + what[:600])


def check_case(ctx, case):
    if "concurrent" in case:
        return ac.check_concurrent_case(ctx, case, "M-COVER-CONCURRENT")
    if "session" in case:
        # one continuum object and one dissimilarity object: compute, edit, compute again (stale caches show here)
        _, pool = ac.setup(ctx)
        continuum = cases.build_continuum(case["continuum"])
        for op in [None] + case["session"]:
            if op is not None:
                ac.apply_edit(continuum, op)
            if not continuum or len(continuum.annotators) < 2:
                continue
            ctx.count("M-SESSION")
            step = {"continuum": cases.spec_of(continuum), "dissim": case["dissim"], "backend": case["backend"], "want": "auto"}
            _check(ctx, step, continuum)
        return
    _check(ctx, case, None)


def _check(ctx, case, continuum):
    spy, pool = ac.setup(ctx)
    cspec, dspec = case["continuum"], case["dissim"]
    dissim = pool.get(dspec)
    if continuum is None:
        continuum = cases.build_continuum(cspec)
    try:
        soft, solvers = ac.call_alignment(continuum, dissim, case["backend"], "soft", spy)
    except Exception as e:
        if case["backend"] == "allfail":
            ctx.observe("no_solver_usable", "refused:" + type(e).__name__)     # without any solver a refusal is the right answer
            return
        ctx.count("M-COVER")
        ctx.fail_exc(f"raises:{type(e).__name__}", e, monitor="M-COVER")
        return
    try:
        # (the partition it is compared with is computed under the normal configuration when no solver is usable)
        best, _ = ac.call_alignment(continuum, dissim, "cbc" if case["backend"] == "allfail" else case["backend"], "best", spy)
    except Exception as e:
        ctx.count("M-COVER")
        ctx.fail_exc(f"raises:{type(e).__name__}", e, monitor="M-COVER")
        return
    if case["backend"] == "allfail":
        ctx.observe("no_solver_usable", "an alignment was returned (judged like any other)")
    ctx.observe("solver", ",".join(solvers))
    ctx.count("M-COVER")
    pr = monitors.check_partition(continuum, soft, cover=True)
    if pr:
        ctx.fail("not-a-cover", {"problems": pr, "solvers": solvers}, monitor="M-COVER")
        return
    ctx.observe("soft_repeats_a_unit", sum(1 for ua in soft.unitary_alignments for _, u in ua.n_tuple if u is not None)
                > cases.spec_num_units(cspec))
    nunits = cases.spec_num_units(cspec)
    want = case.get("want") or ("both" if (nunits <= 14 and ctx.rng.random() < 0.3) else "auto")
    opt = oracles.optimum(cspec, dissim, cover=True, want=want)
    ctx.observe("oracle_methods", "+".join(sorted(opt["methods"])))
    if not opt["methods"]:
        # the independent solver gave up within its time limit (loaded machine): this case is simply not judged; the
        # number of such cases is reported, and the run is inconclusive only if they are more than a few
        ctx.count("oracle-unavailable")
        if ctx.monitors["oracle-unavailable"] > max(5, 0.05 * ctx.evaluations):
            ctx.inconclusive_because("the independent MILP oracle timed out on more than 5 % of the cases")
        return
    if not opt["agree"]:
        _oracle_doubt(ctx, f"oracle methods disagree: {opt['methods']} on {ctx.current}")
        return
    ctx.count("M-OPT")
    ref = opt["value"]
    got = float(soft.disorder)
    _, sizes, _, tensor = ac.oracle_tables(cspec, dissim)
    recomputed = ac.alignment_cost_from_tensor(cspec, soft, tensor, sizes)
    detail = {"reported": got, "recomputed_from_units": recomputed, "oracle": opt["methods"], "solvers": solvers,
              "best_partition": float(best.disorder)}
    if not oracles.close_at_scale(recomputed, ref, dissim.delta_empty):
        if recomputed > ref:
            ctx.fail("cover-not-minimal", detail, monitor="M-OPT")
        else:
            _oracle_doubt(ctx, f"returned cover costs less than the oracle optimum: {detail}")
        return
    if not oracles.close_at_scale(got, ref, dissim.delta_empty):
        ctx.fail("reported-disorder-not-the-minimum", detail, monitor="M-OPT")
    if got > float(best.disorder) and not oracles.close_at_scale(got, float(best.disorder), dissim.delta_empty):
        ctx.fail("soft-exceeds-best", detail, monitor="M-OPT")


def run(ctx):
    ac.setup(ctx)
    dspecs = cases.gen_pool_specs(ctx.rng, ctx.scale(12, 30))
    dspecs += [{"kind": "positional", "delta": 0.5},
               {"kind": "combined", "alpha": 1.0, "beta": 1.0, "delta": 1.0, "pos": None, "cat": None}]
    for _ in range(3):      # a few editing sessions first, whatever the time budget (deciding monitor)
        cs0 = cases.gen_continuum(ctx.rng, n_annot=3, max_units=3, allow_empty=False, labels=cases.LABELS_SMALL)
        case = {"continuum": cs0, "dissim": {"kind": "positional", "delta": 0.5}, "backend": "cbc",
                "session": ac.gen_edit_ops(ctx.rng, cs0, cases.LABELS_SMALL, 3)}
        ctx.begin_case(case)
        check_case(ctx, case)
    # one continuum object soft-aligned by several user threads at once (dissimilarities with different candidate tables / label indices)
    for _ in range(ctx.scale(4, 60)):
        case = ac.gen_concurrent_case(ctx.rng, "soft")
        ctx.begin_case(case)
        ctx.observe("family", "concurrent-threads")
        check_case(ctx, case)
    # continua whose cover programme has an integrality gap (the solvers have to branch): _align_common.hard_mip_cases
    for i, hc in enumerate(ac.hard_mip_cases(ctx, "cover", limit=ctx.scale(15, None), min_gap=1e-3)):
        case = dict(hc, backend="cbc" if i % 2 == 0 else "glpk", want="auto")
        ctx.begin_case(case)
        ctx.observe("family", "integrality-gap")
        check_case(ctx, case)
    # very small delta_empty: costs of the order of 1e-5 .. 1e-6, below the absolute tolerances MIP solvers work with
    for i in range(ctx.scale(12, 200)):
        case = ac.gen_oracle_case(ctx, [{"kind": "positional", "delta": d_} for d_ in (1e-5, 3e-6, 3e-5)] +
                                  [{"kind": "combined", "alpha": 1.0, "beta": 1.0, "delta": d_, "pos": None, "cat": None} for d_ in (1e-5, 1e-6, 1e-4)],
                                  families=["dense", "longoverlap", "grid", "generic"])
        ctx.begin_case(case)
        ctx.observe("family", "small-delta_empty")
        check_case(ctx, case)
    for _ in range(ctx.scale(220, 5000)):
        if ctx.out_of_time():
            break
        case = ac.gen_oracle_case(ctx, dspecs)
        if ctx.rng.random() < 0.05:
            case["backend"] = "allfail"      # every solver call raises SolverError: a refusal is fine, a wrong cover is not
        if ctx.rng.random() < 0.1 and cases.spec_num_units(case["continuum"]) <= 12:
            labels = cases.dissim_labels(case["dissim"]) or cases.LABELS_SMALL
            case["session"] = ac.gen_edit_ops(ctx.rng, case["continuum"], labels, ctx.rng.randint(2, 4))
        cs = case["continuum"]
        nonempty = sum(1 for us in cs["ann"].values() if us)
        ctx.begin_case(case, nontrivial=cases.spec_num_units(cs) >= 2 and nonempty >= 2)
        ac.observe_case(ctx, case)
        check_case(ctx, case)
    if ctx.tier == "thorough":
        grid_dissims = [{"kind": "positional", "delta": 1.0},
                        {"kind": "combined", "alpha": 1.0, "beta": 1.0, "delta": 0.5, "pos": None, "cat": None}]
        k = 0
        for which in ("2x2", "3x2"):
            for cspec in ac.exhaustive_grid_cases(which):
                for dspec in grid_dissims:
                    k += 1
                    if k % ctx.nshards != ctx.shard:
                        continue
                    case = {"continuum": cspec, "dissim": dspec, "backend": "cbc" if (k // ctx.nshards) % 2 else "glpk",
                            "want": "auto"}
                    nonempty = sum(1 for us in cspec["ann"].values() if us)
                    ctx.begin_case(case, nontrivial=cases.spec_num_units(cspec) >= 2 and nonempty >= 2)
                    ctx.observe("exhaustive_subfamily", which)
                    check_case(ctx, case)
        ctx.note("exhaustive_grid_complete", True)
