"""C12 - gamma-cat and gamma-k follow their definition."""
import math

import numpy as np

from .. import cases, oracles
from . import _align_common as ac

TITLE = "Gamma-cat and gamma-k follow their definition"
DECIDING = ["M-CATDIS", "M-GAMMACAT", "M-REFUSE", "M-AGREE-1", "M-CATDIS-AFTER-EDIT", "M-CATDIS-CONCURRENT", "M-GAMMACAT-ASKED-AGAIN"]
LEVEL = "exploration"
RULE = ("(A) Alignment.gamma_k_disorder(d, c) on library best / soft alignments and on hand-built random partitions "
        "with every pattern of empty slots (2-5 annotators), c in {None, each category present, one absent}, combined "
        "dissimilarities with every categorical component, alpha, delta_empty - against an independent weighted-mean "
        "reference; (B) GammaResults.gamma_cat / gamma_k against 1 - observed/mean(chance) recomputed from the stored "
        "alignments, <= 1, == 1 on continua whose annotators agree on every category and leave nothing unaligned; "
        "(C) refusal for non-combined dissimilarities (gamma-cat, gamma-k of a present and of an absent category); (D) "
        "labels '', '0', ' ', 'None' (legal, falsy- or None-looking) in 30 % of the label-free cases; hand-built alignments measured, then edited through the public UnitaryAlignment.n_tuple setter, then measured again; (E) one alignment object measured by 8 user threads at once; unlabelled units in a quarter of the cases whose categorical component is the default one. non-trivial = alignment with >= 1 unitary alignment holding 2 "
        "real units; distinct by SHA-1")
ASSUMPTIONS = [
    "weights and values use the combined dissimilarity's own components through their d() (weighting logic is what C12 "
    "is about; the formulae are C04's): positional dissimilarity = positional_dissim.d, categorical = categorical_dissim.d",
    "when the weighted mean has zero total weight (or one below 1e-6, the rounding residue of 1 - alpha * positional for a pair sitting exactly on 1 / alpha) the definition is silent / ill-conditioned: only finiteness / no exception is checked",
    "when the mean chance categorical disorder is 0 the ratio is undefined: only '<= 1 or not a number' is checked",
    "known finding D7 is recognised only by its exact signature (no counted real-real pair, >= 1 counted unit/empty "
    "pair, library returned 0, reference == delta_empty)",
    "tolerance |a-b| <= 2e-5*max(1,|a|,|b|)",
]


def plan(tier, seed):
    return ac.std_plan(tier, quick_budget=75, thorough_budget=700)


def _pos_formula(u1, u2, delta, custom=None):
    rel = ((abs(u1.segment.start - u2.segment.start) + abs(u1.segment.end - u2.segment.end)) /
           ((u1.segment.end - u1.segment.start) + (u2.segment.end - u2.segment.start)))
    if custom == "linear":       # the user-defined positional component of cases.linear_positional_class()
        return rel * delta
    return rel ** 2 * delta


def _cat_value(dissim, dspec, u1, u2, delta):
    """Categorical dissimilarity of two units from the documented formula where there is an exact one (absolute,
    precomputed: with the COMBINED dissimilarity's delta_empty), from the component's d() otherwise."""
    cat = (dspec or {}).get("cat") if dspec else None
    kind = "absolute" if (dspec is not None and cat is None) else (cat or {}).get("kind")
    if kind == "absolute":
        return (0.0 if u1.annotation == u2.annotation else 1.0) * delta
    if kind == "precomputed":
        cats = sorted(cat["cats"])
        return float(cases.f32(cat["matrix"][cats.index(u1.annotation)][cats.index(u2.annotation)])) * delta
    return float(dissim.categorical_dissim.d(u1, u2))


def ref_cat_disorder(alignment, dissim, category, dspec=None):
    """Independent weighted mean.  Returns (value or None if total weight is 0, n real-real pairs counted,
    n unit/empty pairs counted).  The positional term is evaluated from the documented formula in float64 with the
    combined dissimilarity's delta_empty (not through the component object)."""
    delta = float(dissim.delta_empty)
    custom = getattr(dissim.positional_dissim, "_verif_custom", None)
    num = 0.0
    den = 0.0
    rr = ue = 0
    for ua in alignment.unitary_alignments:
        units = [u for _, u in ua.n_tuple]
        k = sum(1 for u in units if u is not None)
        for i in range(len(units)):
            for j in range(i + 1, len(units)):
                u1, u2 = units[i], units[j]
                if u1 is None and u2 is None:
                    continue
                if category is not None:
                    has = (u1 is not None and u1.annotation == category) or (u2 is not None and u2.annotation == category)
                    if not has:
                        continue
                if u1 is None or u2 is None:
                    ue += 1
                    num += delta * delta
                    den += delta
                    continue
                rr += 1
                w = (1.0 / (k - 1)) * max(0.0, 1.0 - float(dissim.alpha) * _pos_formula(u1, u2, delta, custom))
                num += w * _cat_value(dissim, dspec, u1, u2, delta)
                den += w
    if den <= 1e-6 * max(1.0, delta):
        # zero total weight - or a total weight that is nothing but the rounding residue of 1 - alpha * positional (a pair whose
        # positional dissimilarity sits exactly on 1 / alpha): the weighted mean is undefined / ill-conditioned there
        return None, rr, ue
    return num / den, rr, ue


def check_catdis(ctx, alignment, dissim, category, where, dspec=None):
    ctx.count("M-CATDIS")
    try:
        got = alignment.gamma_k_disorder(dissim, category)
    except Exception as e:
        ctx.fail_exc(f"{where}:gamma_k_disorder-raises:{type(e).__name__}", e, monitor="M-CATDIS")
        return None
    got = float(got)
    ref, rr, ue = ref_cat_disorder(alignment, dissim, category, dspec)
    ctx.observe("catdis_shape", f"rr{'+' if rr else '0'}/ue{'+' if ue else '0'}/{'cat' if category is not None else 'all'}")
    if ref is None:
        if not math.isfinite(got):
            ctx.fail(f"{where}:non-finite-with-zero-weight", {"got": got, "category": category}, monitor="M-CATDIS")
        return got
    if not oracles.close(got, ref):
        delta = float(dissim.delta_empty)
        detail = {"got": got, "reference": ref, "category": category, "real_real_pairs": rr, "unit_empty_pairs": ue,
                  "delta_empty": delta, "alignment": _al_repr(alignment)}
        if rr == 0 and ue >= 1 and got == 0.0 and oracles.close(ref, delta):
            ctx.fail("D7:unit-empty-pairs-discarded-when-no-real-pair", detail, monitor="M-CATDIS")
        else:
            ctx.fail(f"{where}:categorical-disorder-mismatch", detail, monitor="M-CATDIS")
    return got


def _al_repr(al):
    return [[(a, None if u is None else (u.segment.start, u.segment.end, u.annotation)) for a, u in ua.n_tuple]
            for ua in al.unitary_alignments][:8]


def combined_specs(rng, n):
    out = []
    while len(out) < n:
        d = cases.gen_dissim(rng, ["combined"], allow_component_delta=False)
        if rng.random() < 0.2:      # a user-defined positional component: the weights must follow ITS d()
            d["pos"] = {"delta": d["delta"], "custom": "linear"}
        out.append(d)
    return out


def check_disorder_case(ctx, case):
    _, pool = ac.setup(ctx)
    cspec, dspec = case["continuum"], case["dissim"]
    dissim = pool.get(dspec)
    continuum = cases.build_continuum(cspec)
    labels = cases.spec_labels(cspec)
    cats = [None] + labels + ["@absent@"] if cases.dissim_labels(dspec) is None else [None] + labels
    src = case["source"]
    if src == "best":
        al = continuum.get_best_alignment(dissim)
    elif src == "soft":
        al = continuum.get_best_soft_alignment(dissim)
    else:
        al = cases.build_alignment(cspec, case["alignment"], continuum=continuum if case.get("attach", True) else None)
    for c in cats:
        check_catdis(ctx, al, dissim, c, src, dspec)
    if case.get("edit") and src == "hand" and len(al.unitary_alignments) >= 2:
        # history on the SAME UnitaryAlignment objects: measured above, now edited through the public n_tuple setter
        # (a unit moves from one unitary alignment into an empty slot of another), then measured again
        uas = al.unitary_alignments
        moved = False
        order = list(range(len(uas)))
        ctx.rng.shuffle(order)
        for i in order:
            for j in order:
                if i == j or moved:
                    continue
                ti, tj = list(uas[i].n_tuple), list(uas[j].n_tuple)
                for k, ((a1, u1), (a2, u2)) in enumerate(zip(ti, tj)):
                    if a1 == a2 and u1 is None and u2 is not None and sum(1 for _, u in tj if u is not None) >= 2:
                        ti[k], tj[k] = (a1, u2), (a2, None)
                        uas[i].n_tuple, uas[j].n_tuple = ti, tj
                        moved = True
                        break
        if moved:
            ctx.count("M-CATDIS-AFTER-EDIT")
            for c in cats:
                check_catdis(ctx, al, dissim, c, "hand-after-n_tuple-edit", dspec)


def check_gamma_case(ctx, case):
    import pygamma_agreement as pa
    _, pool = ac.setup(ctx)
    cspec, dspec = case["continuum"], case["dissim"]
    dissim = pool.get(dspec)
    continuum = cases.build_continuum(cspec)
    np.random.seed(case["np_seed"])
    sampler = pa.ShuffleContinuumSampler() if case.get("sampler") == "shuffle" else None
    try:
        res = continuum.compute_gamma(dissim, n_samples=case["n_samples"], sampler=sampler, soft=case.get("soft", False))
    except Exception as e:
        ctx.fail_exc(f"compute_gamma-raises:{type(e).__name__}", e, monitor="M-GAMMACAT")
        return
    labels = cases.spec_labels(cspec)
    # the same GammaResults object is asked again, in the reverse order: the answers are the ones it gave the first time
    first_answers = {}
    for rnd, order in enumerate(([None] + labels, list(reversed([None] + labels)))):
        for c in order:
            try:
                with np.errstate(all="ignore"):
                    v = float(res.gamma_cat if c is None else res.gamma_k(c))
            except Exception:
                continue
            if rnd == 0:
                first_answers[c] = v
            elif c in first_answers:
                ctx.count("M-GAMMACAT-ASKED-AGAIN")
                a = first_answers[c]
                if not (a == v or (a != a and v != v)):
                    ctx.fail("gamma_cat/gamma_k:another-answer-when-asked-again", {"category": c, "first": a, "again": v}, monitor="M-GAMMACAT-ASKED-AGAIN")
    for c in [None] + labels:
        ctx.count("M-GAMMACAT")
        name = "gamma_cat" if c is None else "gamma_k"
        try:
            with np.errstate(all="ignore"):
                got = res.gamma_cat if c is None else res.gamma_k(c)
        except ZeroDivisionError:
            ctx.observe("gamma_zero_division", name)
            continue
        except Exception as e:
            ctx.fail_exc(f"{name}-raises:{type(e).__name__}", e, monitor="M-GAMMACAT")
            continue
        got = float(got)
        obs = float(res.best_alignment.gamma_k_disorder(dissim, c))
        chance = [float(a.gamma_k_disorder(dissim, c)) for a in res.chance_alignments]
        mean = float(np.mean(chance))
        detail = {"category": c, "got": got, "observed": obs, "mean_chance": mean, "n_chance": len(chance)}
        if got > 1 + 1e-6:
            ctx.fail(f"{name}:exceeds-1", detail, monitor="M-GAMMACAT")
        if mean == 0:
            ctx.observe("mean_chance_zero", name)
            continue
        expected = 1.0 if obs == 0 else 1 - obs / mean
        if not oracles.close(got, expected):
            ctx.fail(f"{name}:not-1-minus-observed-over-mean-chance", dict(detail, expected=expected), monitor="M-GAMMACAT")
        if case.get("agreeing"):
            ctx.count("M-AGREE-1")
            if not oracles.close(got, 1.0):
                ctx.fail(f"{name}:not-1-on-categorically-agreeing-continuum", detail, monitor="M-AGREE-1")


def check_refusal_case(ctx, case):
    _, pool = ac.setup(ctx)
    cspec, dspec = case["continuum"], case["dissim"]
    dissim = pool.get(dspec)
    continuum = cases.build_continuum(cspec)
    al = continuum.get_best_alignment(dissim)
    for c in (None, cases.spec_labels(cspec)[0], "@no-unit-has-this-category@"):
        ctx.count("M-REFUSE")
        try:
            v = al.gamma_k_disorder(dissim, c)
            ctx.fail("categorical-disorder-not-refused-for-non-combined", {"returned": repr(v), "dissim": dspec["kind"]},
                     monitor="M-REFUSE")
        except Exception as e:
            ctx.observe("refusal_exception", type(e).__name__)
    np.random.seed(1)
    res = continuum.compute_gamma(dissim, n_samples=2)
    for name in ("gamma_cat", "gamma_k", "gamma_k(absent category)"):
        ctx.count("M-REFUSE")
        try:
            v = res.gamma_cat if name == "gamma_cat" else res.gamma_k(
                cases.spec_labels(cspec)[0] if name == "gamma_k" else "@no-unit-has-this-category@")
            ctx.fail(f"{name}-not-refused-for-non-combined", {"returned": repr(v), "dissim": dspec["kind"]}, monitor="M-REFUSE")
        except Exception as e:
            ctx.observe("refusal_exception", type(e).__name__)


def check_concurrent_case(ctx, case):
    """ONE alignment object measured (gamma-cat / gamma-k disorders) by several user threads at once: every thread must get
    the value the same call gives alone."""
    _, pool = ac.setup(ctx)
    cspec, dspec = case["continuum"], case["dissim"]
    dissim = pool.get(dspec)
    labels = cases.spec_labels(cspec)
    cats = ([None] + labels + [None] + labels)[:8]
    alone = cases.build_alignment(cspec, case["alignment"], continuum=None)
    try:
        ref = [float(alone.gamma_k_disorder(dissim, c)) for c in cats]
    except Exception as e:
        ctx.fail_exc(f"concurrent:sequential-reference-raises:{type(e).__name__}", e, monitor="M-CATDIS-CONCURRENT")
        return
    shared = cases.build_alignment(cspec, case["alignment"], continuum=None)      # never measured before the threads start
    results = ac.concurrent_calls([(lambda c=c: [float(shared.gamma_k_disorder(dissim, c)) for _ in range(3)]) for c in cats])
    for k, (res, exc) in enumerate(results):
        ctx.count("M-CATDIS-CONCURRENT")
        if exc is not None:
            ctx.fail_exc(f"concurrent:gamma_k_disorder-raises:{type(exc).__name__}", exc, monitor="M-CATDIS-CONCURRENT")
            continue
        if any(not (oracles.close(v, ref[k]) or (v != v and ref[k] != ref[k])) for v in res):
            ctx.fail("concurrent:categorical-disorder-differs-from-the-same-call-alone",
                     {"category": cats[k], "concurrent": res, "alone": ref[k]}, monitor="M-CATDIS-CONCURRENT")


def check_case(ctx, case):
    if case.get("type") == "concurrent":
        return check_concurrent_case(ctx, case)
    t = case["type"]
    if t == "disorder":
        check_disorder_case(ctx, case)
    elif t == "gamma":
        check_gamma_case(ctx, case)
    else:
        check_refusal_case(ctx, case)


def agreeing_continuum(rng, labels):
    """Annotators agree on every category, units well separated and only slightly shifted: full alignment."""
    n = rng.randint(2, 4)
    k = rng.randint(2, 5)
    base = []
    t = 0.0
    for _ in range(k):
        d = float(rng.randint(4, 8))
        base.append((t, t + d, rng.choice(labels)))
        t += d + float(rng.randint(30, 40))
    ann = {}
    for name in cases.ANNOTATOR_NAMES[:n]:
        ann[name] = [[s + rng.choice([0.0, 0.25, 0.5]), e + rng.choice([0.0, 0.25]), lab] for s, e, lab in base]
    return {"ann": ann, "family": "agreeing"}


def run(ctx):
    ac.setup(ctx)
    rng = ctx.rng
    dspecs = combined_specs(rng, ctx.scale(10, 26))
    dspecs.append({"kind": "combined", "alpha": 1.0, "beta": 1.0, "delta": 1.0, "pos": None, "cat": None})
    dspecs.append({"kind": "combined", "alpha": 3.0, "beta": 1.0, "delta": 0.5, "pos": None, "cat": None})
    # one alignment object measured by 8 user threads at once
    for i in range(ctx.scale(6, 80)):
        dspec = rng.choice(dspecs)
        n = rng.randint(2, 4)
        cspec = cases.gen_continuum(rng, n_annot=n, sizes=[rng.randint(2, 4) for _ in range(n)], labels=cases.dissim_labels(dspec) or cases.LABELS_SMALL)
        case = {"type": "concurrent", "continuum": cspec, "dissim": dspec, "alignment": cases.random_partition_alignment(rng, cspec, p_join=0.7)}
        ctx.begin_case(case)
        ctx.observe("source", "concurrent-threads")
        check_case(ctx, case)
    for i in range(ctx.scale(380, 10000)):
        if ctx.out_of_time():
            break
        dspec = rng.choice(dspecs)
        labels = cases.dissim_labels(dspec)
        n = rng.randint(2, 5)
        mx = {2: 7, 3: 5, 4: 4, 5: 3}[n]
        # unlabelled units (legal with the default, absolute, categorical component) in a quarter of the label-free cases
        p_none = rng.choice([0.3, 0.6]) if (labels is None and rng.random() < 0.25) else 0.0
        odd = labels is None and rng.random() < 0.3
        cspec = cases.gen_continuum(rng, n_annot=n, max_units=rng.randint(1, mx), labels=labels or (cases.LABELS_ODD if odd else cases.LABELS_SMALL),
                                    min_total=2, p_none=p_none)
        ctx.observe("odd_labels(empty string, '0', ' ', 'None')", odd)
        ctx.observe("unlabelled_units", p_none > 0)
        src = rng.choice(["best", "soft", "hand", "hand", "hand"])
        case = {"type": "disorder", "continuum": cspec, "dissim": dspec, "source": src}
        if src == "hand":
            if rng.random() < 0.15:      # epoch-scale coordinates: d() is a float64 computation, it must stay exact there
                off = rng.choice([1.7e9, 2.0 ** 31, 86400.0 * 365])
                cspec = {"ann": {a: [[off + u[0], off + u[1], u[2]] for u in us] for a, us in cspec["ann"].items()}, "family": "epoch-offset"}
                case["continuum"] = cspec
                ctx.observe("coordinates", "epoch-scale")
            case["alignment"] = cases.random_partition_alignment(rng, cspec, p_join=rng.choice([0.1, 0.5, 0.9]))
            case["attach"] = rng.random() < 0.7
            case["edit"] = rng.random() < 0.5
        ctx.begin_case(case)
        ctx.observe("source", src)
        ctx.observe("annotators", n)
        ctx.observe("cat_component", (dspec.get("cat") or {"kind": "absolute(default)"})["kind"])
        ctx.observe("alpha", dspec["alpha"])
        check_case(ctx, case)
    for i in range(ctx.scale(16, 300)):
        if ctx.time_left() < -120:
            break
        dspec = rng.choice(dspecs)
        labels = cases.dissim_labels(dspec) or (cases.LABELS_ODD if i % 4 == 1 else cases.LABELS_SMALL)
        agreeing = i % 3 == 0
        if agreeing:
            cspec = agreeing_continuum(rng, labels)
        else:
            n = rng.randint(2, 4)
            cspec = cases.gen_continuum(rng, n_annot=n, max_units=5, labels=labels, allow_empty=False,
                                        family=rng.choice(["grid", "dyadic", "touching", "identical"]))
        case = {"type": "gamma", "continuum": cspec, "dissim": dspec,
                "n_samples": rng.randint(2, 6) if i % 4 else rng.choice([70, 80, 100, 130]),   # also beyond any batch size
                "np_seed": rng.randrange(2 ** 31), "sampler": rng.choice([None, "shuffle"]),
                "soft": rng.random() < 0.25, "agreeing": agreeing}
        ctx.begin_case(case)
        ctx.observe("source", "gamma-agreeing" if agreeing else "gamma")
        check_case(ctx, case)
    for i in range(ctx.scale(3, 8)):
        dspec = rng.choice([{"kind": "positional", "delta": 1.0}, {"kind": "absolute", "delta": 1.0}])
        cspec = cases.gen_continuum(rng, n_annot=2, max_units=3, allow_empty=False, family="grid")
        case = {"type": "refusal", "continuum": cspec, "dissim": dspec}
        ctx.begin_case(case)
        check_case(ctx, case)
