"""C13 - a continuum behaves as sorted unit sets per annotator under any history (model-based monitor)."""
import itertools

from .. import cases, monitors
from .. import ctx as ctxmod

TITLE = "Continuum behaves as sorted unit sets per annotator under any history"
DECIDING = ["M-MODEL", "M-INV", "M-EQ", "M-REJECT"]
LEVEL = "exploration"
EXHAUSTIVE = False
RULE = ("(c) directed histories: two continua of different sizes, each with a removed far-reaching unit of its own label and "
        "possibly reset bounds, merged out of place / in place / with + in either direction; (a), (b): operation histories over {add, add_annotator, remove (present or absent unit), copy, merge in/out of place, +, "
        "reset_bounds, new} on a population of live continua, stepped in lock-step with a dict-of-sets model: (a) "
        "EXHAUSTIVE over all histories of length <= 3 (quick) / <= 5 (thorough) on a small alphabet (2 annotators, "
        "segments (0,1),(0,2), labels None/'x': equal segments differing only by label or by None), full observation "
        "compared at the end of every history; (b) random histories up to length 60 on a richer alphabet (3 "
        "annotators, 5 segments incl. zero-length, sub-precision and reversed ones, labels None/'x'/'y'), every live "
        "continuum compared after every operation and after every exception, with an icontract class invariant "
        "(M-INV) on Continuum. non-trivial = history with >= 2 operations; distinct = distinct histories (SHA-1)")
ASSUMPTIONS = [
    "observations compared: annotators, iter(), c[a], c[a, i], num_units, len, bool, categories, bounds, ==, !=",
    "categories: labels in use <= categories <= labels ever added; a copy has the categories its source had; bounds: "
    "enclose every unit added since the last reset, are exactly the units' extent after reset_bounds ((0, 0) when empty)",
    "a segment is zero-length when end - start <= pyannote's SEGMENT_PRECISION (1e-6): it must be rejected with an "
    "exception and no state change",
    "removing an absent unit must leave the state unchanged (raising is what the docstring promises; not raising is "
    "recorded, not judged)",
]

# ----------------------------------------------------------------------------------------------- model


class Model:
    def __init__(self):
        self.units = {}        # annotator -> set of (s, e, label)
        self.ever = set()      # labels ever added
        self.lo = None         # extent of everything added since the last reset
        self.hi = None
        self.reset_extent = None   # bounds right after reset (exact), invalidated by add

    def clone(self):
        m = Model()
        m.units = {a: set(us) for a, us in self.units.items()}
        m.ever = set(self.ever)
        m.lo, m.hi, m.reset_extent = self.lo, self.hi, self.reset_extent
        return m

    def add(self, a, s, e, lab):
        self.units.setdefault(a, set()).add((s, e, lab))
        if lab is not None:
            self.ever.add(lab)
        self.lo = s if self.lo is None else min(self.lo, s)
        self.hi = e if self.hi is None else max(self.hi, e)
        self.reset_extent = None   # exactness is promised right after a reset only

    def merge(self, other):
        for a in other.units:
            self.units.setdefault(a, set())
        for a, us in other.units.items():
            for (s, e, lab) in us:
                self.add(a, s, e, lab)

    def reset(self):
        allu = [u for us in self.units.values() for u in us]
        if allu:
            self.reset_extent = (min(u[0] for u in allu), max(u[1] for u in allu))
        else:
            self.reset_extent = (0.0, 0.0)
        self.lo, self.hi = (self.reset_extent if allu else (None, None))

    def in_use(self):
        return {u[2] for us in self.units.values() for u in us if u[2] is not None}

    def eq(self, other):
        return self.units == other.units


def observe(c):
    """Everything the statement lets a user see, through the public API only."""
    with monitors.invariant_paused():
        annotators = list(c.annotators)
        it = [(a, (u.segment.start, u.segment.end, u.annotation)) for a, u in c]
        per = {}
        for a in annotators:
            ss = c[a]
            per[a] = [(u.segment.start, u.segment.end, u.annotation) for u in ss]
            byidx = [c[a, i] for i in range(len(ss))]
            per[a + "#idx"] = [(u.segment.start, u.segment.end, u.annotation) for u in byidx]
        return {"annotators": annotators, "iter": it, "per": per, "num_units": c.num_units, "len": len(c),
                "bool": bool(c), "categories": list(c.categories), "bounds": tuple(c.bounds)}


def compare(model, obs):
    problems = []
    exp_ann = sorted(model.units.keys())
    if obs["annotators"] != exp_ann:
        problems.append(("annotators", f"{obs['annotators']} != {exp_ann}"))
    exp_iter = [(a, u) for a in exp_ann for u in sorted(model.units[a], key=cases.unit_key)]
    if obs["iter"] != exp_iter:
        problems.append(("units-or-order", f"iter gives {obs['iter'][:6]}, model {exp_iter[:6]}"))
    for a in exp_ann:
        exp = sorted(model.units[a], key=cases.unit_key)
        if obs["per"].get(a) != exp:
            problems.append(("getitem", f"c[{a!r}] gives {obs['per'].get(a)}, model {exp}"))
        if obs["per"].get(a + "#idx") != exp:
            problems.append(("getitem-index", f"c[{a!r}, i] gives {obs['per'].get(a + '#idx')}, model {exp}"))
    n = sum(len(us) for us in model.units.values())
    if obs["num_units"] != n:
        problems.append(("num_units", f"{obs['num_units']} != {n}"))
    if obs["len"] != len(exp_ann):
        problems.append(("len", f"{obs['len']} != {len(exp_ann)}"))
    if obs["bool"] != (n > 0):
        problems.append(("bool", f"{obs['bool']} with {n} units"))
    cats = obs["categories"]
    if cats != sorted(set(cats)):
        problems.append(("categories-order", f"{cats}"))
    if not model.in_use() <= set(cats):
        problems.append(("categories-missing-label-in-use", f"{sorted(model.in_use() - set(cats))} not in {cats}"))
    if not set(cats) <= model.ever:
        problems.append(("categories-never-added", f"{sorted(set(cats) - model.ever)}"))
    lo, hi = obs["bounds"]
    if model.lo is not None and not (lo <= model.lo and hi >= model.hi):
        problems.append(("bounds-do-not-enclose", f"bounds {(lo, hi)} vs units added {(model.lo, model.hi)}"))
    if model.reset_extent is not None and (lo, hi) != model.reset_extent:
        problems.append(("bounds-after-reset", f"bounds {(lo, hi)}, exact extent {model.reset_extent}"))
    return problems


# ----------------------------------------------------------------------------------------------- executing histories
PRECISION = 1e-6


def apply_op(op, live, models, ctx, where):
    """Apply one operation to the real objects and to the models.  Returns a list of (key, detail) problems."""
    from pygamma_agreement import Continuum
    from pygamma_agreement.continuum import Unit
    from pyannote.core import Segment
    problems = []
    kind = op[0]
    if kind == "new":
        live.append(Continuum())
        models.append(Model())
    elif kind == "add":
        _, i, a, (s, e), lab = op
        c, m = live[i], models[i]
        valid = (e - s) > PRECISION
        try:
            c.add(a, Segment(s, e), lab)
            raised = None
        except Exception as ex:
            raised = ex
        ctx.count("M-REJECT") if not valid else None
        if valid:
            if raised is not None:
                problems.append(("valid-add-raises:" + type(raised).__name__, str(raised)[:200]))
            else:
                m.add(a, s, e, lab)
        elif raised is None:
            problems.append(("zero-length-segment-accepted", f"add({a!r}, Segment({s}, {e}), {lab!r}) did not raise"))
            # keep the model in step with whatever the implementation did, so one defect is reported once
            m.add(a, s, e, lab)
    elif kind == "addann":
        _, i, a = op
        live[i].add_annotator(a)
        models[i].units.setdefault(a, set())
    elif kind == "remove":
        _, i, a, (s, e), lab = op
        c, m = live[i], models[i]
        present = a in m.units and (s, e, lab) in m.units[a]
        try:
            c.remove(a, Unit(Segment(s, e), lab))
            raised = None
        except Exception as ex:
            raised = ex
        if present:
            if raised is not None:
                problems.append(("remove-of-present-unit-raises:" + type(raised).__name__, str(raised)[:200]))
                # state is compared below: a corrupted container shows up there and in M-INV
            m.units[a].discard((s, e, lab))
            # when it raised, the model says "removed": if the unit is still there the comparison reports it once
            if raised is not None:
                m.units[a].add((s, e, lab))
        else:
            ctx.observe("remove_absent", "raises:" + type(raised).__name__ if raised else "silent")
    elif kind == "copy":
        _, i = op
        live.append(live[i].copy())
        models.append(models[i].clone())
        obs_src = list(live[i].categories)
        if list(live[-1].categories) != obs_src:
            problems.append(("copy-categories-differ-from-source", f"{list(live[-1].categories)} != {obs_src}"))
        if tuple(live[-1].bounds) != tuple(live[i].bounds):
            problems.append(("copy-bounds-differ-from-source", f"{live[-1].bounds} != {live[i].bounds}"))
    elif kind in ("merge", "plus"):
        if kind == "merge":
            _, i, j, in_place = op
        else:
            _, i, j = op
            in_place = False
        other_model = models[j].clone()
        if in_place:
            r = live[i].merge(live[j], in_place=True)
            if r is not None:
                problems.append(("in-place-merge-returns-a-value", repr(type(r))))
            models[i].merge(other_model)
        else:
            res = (live[i] + live[j]) if kind == "plus" else live[i].merge(live[j], in_place=False)
            m = models[i].clone()
            m.merge(other_model)
            live.append(res)
            models.append(m)
    elif kind == "reset":
        _, i = op
        live[i].reset_bounds()
        models[i].reset()
    else:
        raise ValueError(kind)
    return problems


def check_all(live, models, ctx, where, deep_inv=True):
    out = []
    for idx, (c, m) in enumerate(zip(live, models)):
        ctx.count("M-MODEL")
        try:
            obs = observe(c)
        except Exception as e:
            out.append(("observation-raises:" + type(e).__name__, f"continuum #{idx}: {e}"))
            continue
        for key, msg in compare(m, obs):
            out.append((key, f"continuum #{idx}: {msg}"))
        if deep_inv:
            ctx.count("M-INV")
            for p in monitors.continuum_invariant_problems(c):
                out.append(("inv:" + monitors._inv_key(p), f"continuum #{idx}: {p}"))
    return out


def check_equalities(live, models, ctx):
    out = []
    with monitors.invariant_paused():
        for i in range(len(live)):
            for j in range(len(live)):
                ctx.count("M-EQ")
                exp = models[i].eq(models[j])
                got, gotne = (live[i] == live[j]), (live[i] != live[j])
                if got != exp or gotne == got:
                    out.append(("equality-differs-from-model", f"#{i} == #{j}: {got} (!=: {gotne}), model {exp}"))
        if live:
            if (live[0] == 5) or not (live[0] != "x"):
                out.append(("equality-with-foreign-object", "continuum == 5 or not (continuum != 'x')"))
    return out


def run_history(ctx, ops, check_every, where):
    live, models = [], []
    apply_op(("new",), live, models, ctx, where)
    problems = []
    for k, op in enumerate(ops):
        try:
            pr = apply_op(op, live, models, ctx, where)
        except Exception as e:
            pr = [("operation-raises:" + op[0] + ":" + type(e).__name__, str(e)[:200])]
        problems += [(key, f"after op {k} {op}: {msg}") for key, msg in pr]
        if check_every or pr:
            problems += [(key, f"after op {k} {op}: {msg}") for key, msg in check_all(live, models, ctx, where)]
            if problems:
                break
    if not problems:
        if not check_every:
            problems += check_all(live, models, ctx, where)
        problems += check_equalities(live, models, ctx)
    seen = set()
    for key, msg in problems:
        if key not in seen:
            seen.add(key)
            ctx.fail(key, {"message": msg, "history": [list(map(_j, op)) for op in ops]},
                     case={"history": [list(map(_j, op)) for op in ops], "mode": where}, monitor="M-MODEL")


def _j(x):
    return list(x) if isinstance(x, tuple) else x


def _t(op):
    return tuple(tuple(x) if isinstance(x, list) else x for x in op)


def check_case(ctx, case):
    ops = [_t(op) for op in case["history"]]
    run_history(ctx, ops, check_every=True, where=case.get("mode", "replay"))


# ----------------------------------------------------------------------------------------------- alphabets
SMALL_ANN = ["a", "b"]
SMALL_SEGS = [(0.0, 1.0), (0.0, 2.0)]
SMALL_LABELS = [None, "x"]


def small_ops():
    """Operations applicable at any point of an exhaustive history; continuum indices are resolved against the
    live population: 0 = main continuum, -1 = most recent one."""
    ops = []
    for a in SMALL_ANN:
        for s in SMALL_SEGS:
            for l in SMALL_LABELS:
                ops.append(("add", 0, a, s, l))
    for a in SMALL_ANN:
        ops.append(("addann", 0, a))
    for a in SMALL_ANN[:1]:
        for s in SMALL_SEGS:
            for l in SMALL_LABELS:
                ops.append(("remove", 0, a, s, l))
    ops.append(("add", 0, "a", (1.0, 1.0), "x"))      # zero-length
    ops.append(("copy", 0))
    ops.append(("merge", 0, -1, True))
    ops.append(("merge", -1, 0, False))
    ops.append(("plus", 0, -1))
    ops.append(("reset", 0))
    ops.append(("add", -1, "b", (0.0, 2.0), "x"))     # mutate the most recent continuum (a copy / merge result)
    ops.append(("remove", -1, "a", (0.0, 1.0), None))
    return ops


def resolve(ops):
    """Turn the relative continuum index -1 ("most recent") into an absolute one, so that two spellings of the same
    history are one case."""
    out = []
    n_live = 1
    for op in ops:
        op = list(op)
        fields = (1, 2) if op[0] in ("merge", "plus") else ((1,) if op[0] != "new" else ())
        for pos in fields:
            if op[pos] == -1:
                op[pos] = n_live - 1
        if op[0] in ("copy", "plus", "new") or (op[0] == "merge" and op[3] is False):
            n_live += 1
        out.append(tuple(op))
    return out


RICH_ANN = ["a10", "a2", "B"]      # alphabetical order differs from numeric and from case-insensitive order
RICH_SEGS = [(0.0, 1.0), (0.0, 2.0), (1.0, 2.0), (-3.0, -1.0), (0.5, 7.25), (2.0, 2.0), (3.0, 3.0000005), (5.0, 4.0),
             # values a float32 cannot tell apart, and integer boundaries beyond 2**53 (nanosecond time stamps): exact types matter
             (1000.0, 16777217.0), (1000.0, 16777216.0), (16777216.0, 16777218.0), (16777217.0, 16777218.0),
             (1700000000000000300, 1700000000000001100), (1700000000000000301, 1700000000000001100)]
RICH_LABELS = [None, "x", "y", ""]      # the empty label is a label: it sorts after the unlabelled unit, before any other


def random_history(rng, length):
    ops = []
    n_live = 1
    for _ in range(length):
        r = rng.random()
        i = rng.randrange(n_live)
        if r < 0.42:
            ops.append(("add", i, rng.choice(RICH_ANN), rng.choice(RICH_SEGS), rng.choice(RICH_LABELS)))
        elif r < 0.47:
            ops.append(("addann", i, rng.choice(RICH_ANN)))
        elif r < 0.72:
            ops.append(("remove", i, rng.choice(RICH_ANN), rng.choice(RICH_SEGS[:5] + RICH_SEGS[8:]), rng.choice(RICH_LABELS)))
        elif r < 0.78 and n_live < 5:
            ops.append(("copy", i))
            n_live += 1
        elif r < 0.86:
            j = rng.randrange(n_live)
            in_place = rng.random() < 0.5 or n_live >= 5
            ops.append(("merge", i, j, in_place))
            if not in_place:
                n_live += 1
        elif r < 0.90 and n_live < 5:
            ops.append(("plus", i, rng.randrange(n_live)))
            n_live += 1
        elif r < 0.96:
            ops.append(("reset", i))
        elif n_live < 5:
            ops.append(("new",))
            n_live += 1
        else:
            ops.append(("reset", i))
    return ops


def asymmetric_merge_history(rng):
    """Two continua of different sizes, each with a past (a far-reaching unit with a label of its own, removed again;
    sometimes a reset in between), merged out of place in either direction: units are symmetric under merge, the
    receiver's bounds and categories are not."""
    ops = []
    far = [(-3.0, -1.0), (0.5, 7.25), (1000.0, 16777216.0)]
    near = [(0.0, 1.0), (0.0, 2.0), (1.0, 2.0)]
    sizes = rng.choice([(1, 3), (2, 4), (3, 1), (2, 2), (1, 4)])
    for idx, k in enumerate(sizes):
        if idx == 1:
            ops.append(("new",))
        lab_far = "y" if idx == 0 else "x"
        seg_far = rng.choice(far)
        ann_far = rng.choice(RICH_ANN)
        if rng.random() < 0.8:
            ops.append(("add", idx, ann_far, seg_far, lab_far))
        for _ in range(k):
            ops.append(("add", idx, rng.choice(RICH_ANN), rng.choice(near), rng.choice([None, "x" if idx == 0 else "y"])))
        if rng.random() < 0.8:
            ops.append(("remove", idx, ann_far, seg_far, lab_far))
        if rng.random() < 0.4:
            ops.append(("reset", idx))
    i, j = rng.choice([(0, 1), (1, 0)])
    ops.append(rng.choice([("merge", i, j, False), ("plus", i, j), ("merge", i, j, True)]))
    return ops


def plan(tier, seed):
    n = 4 if tier == "quick" else 16
    shards = [{"env": {}, "params": {"time_budget": 70 if tier == "quick" else 700, "current_every": 50}}
              for _ in range(n)]
    if tier == "thorough":   # the repository's own suite under the icontract class invariant (sampled evaluation)
        shards.append({"env": {}, "params": {"suite": "inv"}})
    return {"shards": shards, "timeout": 400 if tier == "quick" else 3000}


def run(ctx):
    if ctx.params.get("suite"):
        from ..suite import run_suite_under_monitors
        run_suite_under_monitors(ctx, ctx.params["suite"])
        return
    rng = ctx.rng
    # (a) exhaustive histories on the small alphabet (no icontract wrapper: the invariant is evaluated explicitly)
    alphabet = small_ops()
    depth = 3 if ctx.tier == "quick" else 5
    count = 0
    import zlib
    for L in range(1, depth + 1):
        for combo in itertools.product(range(len(alphabet)), repeat=L):
            ops = resolve([alphabet[k] for k in combo])
            h = zlib.crc32(repr(ops).encode()) 
            if h % ctx.nshards != ctx.shard:
                continue
            key = hash(tuple(ops))
            if key in ctx.partitioned:
                continue          # another spelling of a history already executed
            ctx.begin_case({"history": [list(map(_j, op)) for op in ops], "mode": "exhaustive"}, nontrivial=L >= 2,
                           key=key, partitioned=True)
            run_history(ctx, ops, check_every=False, where="exhaustive")
            count += 1
    ctx.observe("exhaustive_histories", f"len<={depth}", count)
    ctx.note("exhaustive_alphabet_size", len(alphabet))
    ctx.note("exhaustive_depth", depth)
    ctx.note("exhaustive_subfamily_complete", True)
    # (t) targeted pairs for the equivalence: the same units in the same iteration order, owned differently (one annotator's last unit
    # is the next annotator's first); the same owners, one label apart; an annotator without units on one side only
    for segs in ([(0.0, 1.0), (1.0, 2.0), (2.0, 3.0)], [(0.0, 2.0), (0.0, 2.0), (5.0, 6.0)], [(-3.0, -1.0), (0.5, 7.25), (1.0, 2.0)]):
        for lab in ("x", None):
            ops = [("add", 0, "a", segs[0], lab), ("add", 0, "b", segs[1], lab), ("add", 0, "b", segs[2], lab), ("new",),
                   ("add", 1, "a", segs[0], lab), ("add", 1, "a", segs[1], lab), ("add", 1, "b", segs[2], lab), ("new",),
                   ("add", 2, "a", segs[0], lab), ("add", 2, "b", segs[1], "y"), ("add", 2, "b", segs[2], lab), ("new",),
                   ("add", 3, "a", segs[0], lab), ("add", 3, "b", segs[1], lab), ("add", 3, "b", segs[2], lab), ("addann", 3, "c")]
            ctx.begin_case({"history": [list(map(_j, op)) for op in ops], "mode": "targeted-equality"})
            run_history(ctx, ops, check_every=True, where="targeted-equality")

    # (b) random histories under the icontract class invariant
    monitors.install_continuum_invariant("M-INV")
    for _ in range(ctx.scale(120, 3000)):
        ops = asymmetric_merge_history(rng)
        ctx.begin_case({"history": [list(map(_j, op)) for op in ops], "mode": "asymmetric-merge"}, nontrivial=True)
        ctx.observe("history_length_bucket", "asymmetric-merge")
        run_history(ctx, ops, check_every=True, where="asymmetric-merge")
    n_hist = ctx.scale(250, 12000)
    for _ in range(n_hist):
        if ctx.out_of_time():
            break
        ops = random_history(rng, rng.randint(2, 60))
        case = {"history": [list(map(_j, op)) for op in ops], "mode": "random"}
        ctx.begin_case(case, nontrivial=True)
        ctx.observe("history_length_bucket", (len(ops) // 10) * 10)
        for op in ops:
            ctx.observe("operation", op[0])
        run_history(ctx, ops, check_every=True, where="random")
