"""C14 - computations never modify their inputs; derived continua are independent of their source."""
import copy as _copy
import sys
import threading
import os
import tempfile

import numpy as np

from .. import cases, monitors
from . import _align_common as ac

TITLE = "Computations never modify their inputs; derived continua are independent"
DECIDING = ["M-PURE", "M-INDEPENDENT", "M-PURE-AFTER-FAILURE", "M-PURE-SHARED-COMPONENT", "M-LIVE-CATEGORIES", "M-PURE-WATCHER"]
LEVEL = "exploration"
RULE = ("a case = one random labelled continuum + one pooled dissimilarity; every public computation entry point is "
        "called on it (best / soft / fast alignment, candidate enumeration, compute_gamma in the three modes with both "
        "samplers and ground-truth subsets, measure_best_window_size, Alignment / UnitaryAlignment compute_disorder, "
        "gamma_k_disorder, GammaResults.gamma / gamma_cat / gamma_k, sampler init + draws, CorpusShufflingTool "
        "constructor (with extra categories), corpus_from_reference, each *_shuffle, corpus_shuffle, copy, merge, +, "
        "__getitem__, ==, iteration, to_csv; computations that fail part-way on a unit with an unknown label; computations "
        "with one of two combined dissimilarities that share a component object; a dissimilarity built from the continuum's live category set, the continuum then given new labels) between snapshots (annotators, units, categories, bounds, window size) of "
        "every continuum argument (a reader thread also polls annotators / number of units / categories of the input WHILE the gamma, sampler, "
        "fast-alignment and window-measure calls run) and (delta_empty, alpha, beta, categories, matrix bytes, kernel identity, components) "
        "of the dissimilarity; then each derived continuum (copy, merge result, + result, sampler outputs, chance "
        "samples of a gamma, generated corpora, c[annotator]) and the source are mutated in turn by a random script "
        "(add with a brand-new label, remove, add_annotator, reset_bounds, in-place merge, an in-place perturbation of the corpus shuffling tool) and the other side is "
        "re-snapshotted. non-trivial = continuum with >= 2 units; distinct by SHA-1 of the case")
ASSUMPTIONS = [
    "only documented exception: compute_gamma(fast=True) and measure_best_window_size may change best_window_size",
    "the in-place merge modifies its receiver by definition; its argument must stay unchanged",
    "an Alignment referring to the continuum it aligns (GammaResults.best_alignment.continuum) is not a derived continuum",
]


def plan(tier, seed):
    return ac.std_plan(tier, quick_budget=75, thorough_budget=700)


def snap(c):
    s = monitors.snapshot_continuum(c)
    s["best_window_size"] = float(c.best_window_size)
    return s


class Pure:
    """Snapshot wrapper around one entry-point call."""

    def __init__(self, ctx, name, continua=(), dissims=(), allow_window=False, may_raise=False):
        self.ctx, self.name, self.continua, self.dissims, self.allow_window = ctx, name, list(continua), list(dissims), allow_window
        self.may_raise = may_raise

    @staticmethod
    def _fingerprint(c):
        # what another thread reading the continuum through its public attributes sees
        return (tuple(c.annotators), c.num_units, tuple(c.categories))

    def _watch(self):
        import time as _t
        while not self._stop.is_set():
            for i, c in enumerate(self.continua):
                try:
                    fp = self._fingerprint(c)
                except Exception as e:      # a reader that crashes on a half-modified object has seen the modification too
                    fp = ("unreadable", type(e).__name__)
                self.polls += 1
                if fp != self._fp[i] and self.transient is None:
                    self.transient = {"argument": i, "seen": [list(map(str, fp[0]))[:6], fp[1]] if fp[0] != "unreadable" else list(fp),
                                      "was": [list(map(str, self._fp[i][0]))[:6], self._fp[i][1]]}
            _t.sleep(0.0002)

    def __enter__(self):
        self.before_c = [snap(c) for c in self.continua]
        self.before_d = [monitors.snapshot_dissim(d) for d in self.dissims]
        # a reader thread watches the input continua WHILE the computation runs: "leaves its input as it was" also
        # holds at every moment another thread may look at it (the library's own worker threads do)
        self.transient, self.polls = None, 0
        self._fp = [self._fingerprint(c) for c in self.continua]
        self._stop = threading.Event()
        self._watcher = None
        if self.continua and self.name.startswith(("compute_gamma", "sample_from_continuum", "init_sampling", "get_fast", "measure_best")):
            self._watcher = threading.Thread(target=self._watch, daemon=True)
            self._old_switch = sys.getswitchinterval()
            sys.setswitchinterval(1e-5)
            self._watcher.start()
        return self

    def __exit__(self, et, ev, tb):
        if self._watcher is not None:
            self._stop.set()
            self._watcher.join(5)
            sys.setswitchinterval(self._old_switch)
            self.ctx.count("M-PURE-WATCHER")
            self.ctx.observe("watcher_polls_per_call_log2", self.polls.bit_length())
            if self.transient is not None:
                self.ctx.fail(f"input-continuum-transiently-modified-during:{self.name}", self.transient, monitor="M-PURE-WATCHER")
        self.ctx.count("M-PURE")
        self.ctx.observe("entry_point", self.name)
        for i, c in enumerate(self.continua):
            after = snap(c)
            if self.allow_window:
                after["best_window_size"] = self.before_c[i]["best_window_size"]
            d = monitors.diff_snap(self.before_c[i], after)
            if d:
                self.ctx.fail(f"input-continuum-modified-by:{self.name}", {"diff": d[:4], "argument": i}, monitor="M-PURE")
        for i, dd in enumerate(self.dissims):
            d = monitors.diff_snap(self.before_d[i], monitors.snapshot_dissim(dd))
            if d:
                self.ctx.fail(f"dissimilarity-modified-by:{self.name}", {"diff": d[:4]}, monitor="M-PURE")
        if et is not None and issubclass(et, Exception):
            if self.may_raise:
                self.ctx.observe("computation_that_fails_midway", f"{self.name}:{et.__name__}")
                return True
            self.ctx.fail(f"entry-point-raises:{self.name}:{et.__name__}", {"message": str(ev)[:300]}, monitor="M-PURE")
            return True
        return False


def mutate(rng, c, tag):
    """Random mutation script on a continuum (brand-new label, remove, new annotator, reset, in-place merge)."""
    from pyannote.core import Segment
    from pygamma_agreement import Continuum
    ops = rng.sample(["add-new-label", "remove", "add-annotator", "reset", "merge", "add-existing", "shuffling-tool-in-place"], rng.randint(2, 5))
    for op in ops:
        anns = list(c.annotators)
        if op == "shuffling-tool-in-place":
            # the corpus shuffling tool's public perturbations work IN PLACE on the continuum they are given
            from pygamma_agreement import CorpusShufflingTool
            donors = [a for a in anns if len(c._annotations[a]) >= 1 and all(u.annotation is not None for u in c._annotations[a])]
            if not donors:
                continue
            ref = Continuum()
            for u in c._annotations[donors[0]]:
                ref.add("ref", Segment(u.segment.start, u.segment.end), u.annotation)
            try:
                tool = CorpusShufflingTool(0.6, ref)
                getattr(tool, rng.choice(["splits_shuffle", "splits_shuffle", "shift_shuffle", "false_neg_shuffle", "false_pos_shuffle", "category_shuffle"]))(c)
            except Exception:
                pass        # whether the perturbation accepts this continuum is C19's business; here only the OTHER continuum is looked at
            continue
        if op == "add-new-label":
            c.add(rng.choice(anns) if anns else "solo", Segment(900.0 + rng.random(), 950.0), f"NEW-{tag}-{rng.randrange(1000)}")
        elif op == "add-existing" and anns:
            c.add(rng.choice(anns), Segment(-50.0 - rng.random(), -40.0), "a")
        elif op == "remove":
            cand = [(a, u) for a, u in c]
            if cand:
                a, u = rng.choice(cand)
                c.remove(a, u)
        elif op == "add-annotator":
            c.add_annotator(f"new-annotator-{tag}")
        elif op == "reset":
            c.reset_bounds()
        elif op == "merge":
            o = Continuum()
            o.add("merged-in", Segment(-7.0, -6.0), f"M-{tag}")
            c.merge(o, in_place=True)


def independence(ctx, rng, source, derived, name):
    """Mutating `derived` never changes `source` and vice versa."""
    ctx.count("M-INDEPENDENT")
    ctx.observe("derived_kind", name)
    s0 = snap(source)
    try:
        mutate(rng, derived, "d")
    except Exception as e:
        ctx.fail_exc(f"mutation-of-derived-raises:{name}:{type(e).__name__}", e, monitor="M-INDEPENDENT")
        return
    d = monitors.diff_snap(s0, snap(source))
    if d:
        ctx.fail(f"source-changed-by-mutating:{name}", {"diff": d[:4]}, monitor="M-INDEPENDENT")
        return
    d0 = snap(derived)
    src_copy = _copy.deepcopy(source)      # mutate a structural clone's original, then restore by swapping state back
    try:
        mutate(rng, source, "s")
    except Exception as e:
        ctx.fail_exc(f"mutation-of-source-raises:{type(e).__name__}", e, monitor="M-INDEPENDENT")
    d = monitors.diff_snap(d0, snap(derived))
    if d:
        ctx.fail(f"derived-changed-by-mutating-the-source:{name}", {"diff": d[:4]}, monitor="M-INDEPENDENT")
    # restore the source for the next entry point
    source.__dict__.update(src_copy.__dict__)


def check_case(ctx, case):
    import pygamma_agreement as pa
    from pygamma_agreement.alignment import UnitaryAlignment
    from pyannote.core import Segment
    _, pool = ac.setup(ctx)
    rng = ctx.rng
    cspec, dspec = case["continuum"], case["dissim"]
    dissim = pool.get(dspec)
    c = cases.build_continuum(cspec)
    names = sorted(cspec["ann"].keys())
    if case.get("unused_category") and cases.dissim_labels(dspec) is None:
        # a category the continuum declares although no unit carries it any more (its last unit was removed)
        from pygamma_agreement.continuum import Unit
        c.add(names[0], Segment(-999.0, -998.0), "UNUSED-CATEGORY")
        c.remove(names[0], Unit(Segment(-999.0, -998.0), "UNUSED-CATEGORY"))
        ctx.observe("input_variant", "declares-an-unused-category")
    if case.get("hand_bounds"):
        # bounds assigned by hand (public attributes): narrower than the units' extent, or much wider
        lo = min(u[0] for us in cspec["ann"].values() for u in us)
        hi = max(u[1] for us in cspec["ann"].values() for u in us)
        if case["hand_bounds"] == "narrow":
            c.bound_inf, c.bound_sup = lo + (hi - lo) * 0.1, hi - (hi - lo) * 0.1
        else:
            c.bound_inf, c.bound_sup = lo - 100.0, hi + 250.0
        ctx.observe("input_variant", "hand-set-bounds:" + case["hand_bounds"])
    if cases.spec_labels(cspec):
        # a dissimilarity built the documented way, from the continuum's own (live) category set: editing the continuum
        # afterwards must leave the dissimilarity as it was
        c2 = cases.build_continuum(cspec)
        k = len(c2.categories)
        mat = np.array([[0.0 if i == j else 0.25 + 0.5 * abs(i - j) / max(1, k) for j in range(k)] for i in range(k)], dtype=np.float32)
        try:
            live = [pa.PrecomputedCategoricalDissimilarity(c2.categories, mat, delta_empty=1.0),
                    pa.CombinedCategoricalDissimilarity(cat_dissim=pa.LevenshteinCategoricalDissimilarity(c2.categories))]
            before = [monitors.snapshot_dissim(d_) for d_ in live]
            c2.add(names[0], Segment(-500.0, -499.0), " a new label that sorts first")
            c2.add(names[-1], Segment(-400.0, -399.0), "zzz a new label that sorts last")
            ctx.count("M-LIVE-CATEGORIES")
            for d_, b_ in zip(live, before):
                diff = monitors.diff_snap(b_, monitors.snapshot_dissim(d_))
                if diff:
                    ctx.fail("dissimilarity-modified-by:continuum-edit", {"difference": diff[:6], "class": type(d_).__name__}, monitor="M-LIVE-CATEGORIES")
        except Exception as e:
            ctx.fail_exc(f"live-category-set:raises:{type(e).__name__}", e, monitor="M-LIVE-CATEGORIES")
    P = lambda name, **kw: Pure(ctx, name, continua=kw.pop("continua", [c]), dissims=kw.pop("dissims", [dissim]), **kw)
    np.random.seed(case["np_seed"])
    # ---- alignments and disorders
    best = soft = fast = None
    with P("get_best_alignment"):
        best = c.get_best_alignment(dissim)
    with P("get_best_soft_alignment"):
        soft = c.get_best_soft_alignment(dissim)
    with P("get_fast_alignment"):
        fast = c.get_fast_alignment(dissim, case["window"])
    with P("valid_alignments"):
        dissim.valid_alignments(c)
    with P("get_first_window"):
        c.get_first_window(dissim, 1)
    if best is not None:
        with P("Alignment.compute_disorder"):
            best.compute_disorder(dissim)
        with P("Alignment.check"):
            best.check()
        with P("UnitaryAlignment.compute_disorder"):
            UnitaryAlignment(list(best.unitary_alignments[0].n_tuple)).compute_disorder(dissim)
        if dspec["kind"] == "combined":
            with P("Alignment.gamma_k_disorder"):
                best.gamma_k_disorder(dissim, None)
                best.gamma_k_disorder(dissim, cases.spec_labels(cspec)[0])
    with P("measure_best_window_size", allow_window=True):
        c.measure_best_window_size(dissim)
    c.best_window_size = np.inf
    # ---- gamma
    results = []
    for mode in ("exact", "soft", "fast"):
        for sampler_kind in ("statistical", "shuffle"):
            if rng.random() < 0.5:
                continue
            sampler = pa.StatisticalContinuumSampler() if sampler_kind == "statistical" else \
                pa.ShuffleContinuumSampler(rng.choice(["int_pivot", "float_pivot"]))
            gt = sorted(rng.sample(names, 2)) if (len(names) >= 3 and rng.random() < 0.4) else None
            with P(f"compute_gamma[{mode},{sampler_kind}]", allow_window=(mode == "fast")):
                # (more samples when a ground-truth subset is given: more draws for the reader thread to look in on)
                res = c.compute_gamma(dissim, n_samples=rng.randint(1, 3) if gt is None else rng.randint(6, 12), sampler=sampler, ground_truth_annotators=gt,
                                      fast=mode == "fast", soft=mode == "soft",
                                      precision_level=rng.choice([None, None, 0.5]))
                results.append(res)
            c.best_window_size = np.inf
    # a larger sparse continuum, for which a window-size measure WOULD record a finite window: only the fast mode
    # (and the explicit measure) may touch best_window_size
    if case.get("windowable"):
        big = cases.build_continuum(case["windowable"])
        gd = pool.get({"kind": "combined", "alpha": 1.0, "beta": 1.0, "delta": 1.0, "pos": None, "cat": None})
        for mode, ns in (("exact", 1), ("exact", 2), ("soft", 2), ("exact", 3)):
            with P(f"compute_gamma[{mode},windowable]", continua=[big], dissims=[gd]):
                big.compute_gamma(gd, n_samples=ns, soft=mode == "soft", sampler=pa.ShuffleContinuumSampler())
        with P("get_fast_alignment[windowable]", continua=[big], dissims=[gd]):
            big.get_fast_alignment(gd, 3)
        # ... and once a window size HAS been recorded (explicit measure), the other modes must leave it alone as well
        with P("measure_best_window_size[windowable]", continua=[big], dissims=[gd], allow_window=True):
            big.measure_best_window_size(gd)
        ctx.observe("recorded_window_before_plain_gamma", "finite" if big.best_window_size != np.inf else "inf")
        for mode in ("exact", "soft"):
            with P(f"compute_gamma[{mode},windowable,after-measure]", continua=[big], dissims=[gd]):
                big.compute_gamma(gd, n_samples=1, soft=mode == "soft", sampler=pa.ShuffleContinuumSampler())
        twin = big.copy()
        with P("compute_gamma[exact,copy-of-measured]", continua=[twin, big], dissims=[gd]):
            twin.compute_gamma(gd, n_samples=1, sampler=pa.StatisticalContinuumSampler())
    for res in results[:2]:
        with P("GammaResults.gamma"):
            res.gamma, res.expected_disorder, res.observed_disorder, res.n_samples
        if dspec["kind"] == "combined":
            with P("GammaResults.gamma_cat/gamma_k"):
                with np.errstate(all="ignore"):
                    try:
                        res.gamma_cat
                        res.gamma_k(cases.spec_labels(cspec)[0])
                    except ZeroDivisionError:
                        pass
        for al in res.chance_alignments[:2]:
            if al.continuum is not None:
                independence(ctx, rng, c, al.continuum, "chance-sample-of-compute_gamma")
    # ---- samplers
    for kind in ("statistical", "shuffle_int", "shuffle_float"):
        sampler = pa.StatisticalContinuumSampler() if kind == "statistical" else \
            pa.ShuffleContinuumSampler("int_pivot" if kind == "shuffle_int" else "float_pivot")
        with P(f"init_sampling[{kind}]", dissims=[]):
            sampler.init_sampling(c)
        sample = None
        with P(f"sample_from_continuum[{kind}]", dissims=[]):
            sample = sampler.sample_from_continuum
        if sample is not None:
            independence(ctx, rng, c, sample, f"sample[{kind}]")
    # ---- calls that are refused (or ought to be) because of their arguments must not touch the continuum either
    ctx.count("M-PURE-AFTER-FAILURE")
    ghost = "nobody by that name"
    for name, fn in (("compute_gamma[unknown ground-truth annotator]", lambda: c.compute_gamma(dissim, n_samples=1, ground_truth_annotators=[names[0], ghost])),
                     ("init_sampling[statistical, unknown ground-truth annotator]", lambda: pa.StatisticalContinuumSampler().init_sampling(c, [ghost, names[0]])),
                     ("init_sampling[shuffle, unknown ground-truth annotator]", lambda: pa.ShuffleContinuumSampler().init_sampling(c, [names[-1], ghost])),
                     ("compute_gamma[fast and soft]", lambda: c.compute_gamma(dissim, n_samples=1, fast=True, soft=True))):
        with P(name, may_raise=True):
            fn()
    # ---- a computation that FAILS part-way (a late unit carries a label the dissimilarity does not know) must leave its
    # input exactly as it was, too
    if case.get("poisoned"):
        pc = cases.build_continuum(case["poisoned"]["continuum"])
        pd = pool.get(case["poisoned"]["dissim"])
        ctx.count("M-PURE-AFTER-FAILURE")
        for name, fn in (("get_fast_alignment[fails]", lambda: pc.get_fast_alignment(pd, 1)),
                         ("get_best_alignment[fails]", lambda: pc.get_best_alignment(pd)),
                         ("get_best_soft_alignment[fails]", lambda: pc.get_best_soft_alignment(pd)),
                         ("compute_gamma[fast,fails]", lambda: pc.compute_gamma(pd, n_samples=2, fast=True, sampler=pa.ShuffleContinuumSampler()))):
            with P(name, continua=[pc], dissims=[pd], may_raise=True, allow_window=True):
                fn()
    # ---- one component object shared by two combined dissimilarities with different delta_empty (the second constructor
    # re-parameterises the component - documented); COMPUTING with either must not touch the component or the other one
    if case.get("shared_component"):
        sc = case["shared_component"]
        comp = cases.build_dissim(sc["component"])
        d_a = pa.CombinedCategoricalDissimilarity(alpha=1.0, beta=1.0, delta_empty=sc["delta_a"], cat_dissim=comp)
        d_b = pa.CombinedCategoricalDissimilarity(alpha=2.0, beta=0.5, delta_empty=sc["delta_b"], cat_dissim=comp)
        sc_cont = cases.build_continuum(sc["continuum"])
        ctx.count("M-PURE-SHARED-COMPONENT")
        for name, fn in (("valid_alignments[shared component]", lambda: d_a.valid_alignments(sc_cont)),
                         ("get_best_alignment[shared component]", lambda: sc_cont.get_best_alignment(d_a)),
                         ("compute_disorder[shared component]", lambda: sc_cont.get_best_alignment(d_b).compute_disorder(d_a)),
                         ("compute_gamma[shared component]", lambda: sc_cont.compute_gamma(d_a, n_samples=2))):
            with P(name, continua=[sc_cont], dissims=[d_a, d_b, comp]):
                fn()
    # ---- copy / merge / + / getitem / misc
    other = cases.build_continuum(case["other"])
    with P("copy", dissims=[]):
        cp = c.copy()
    independence(ctx, rng, c, cp, "copy")
    with P("copy_flush", dissims=[]):
        cf = c.copy_flush()
    independence(ctx, rng, c, cf, "copy_flush")
    with P("merge(in_place=False)", continua=[c, other], dissims=[]):
        mg = c.merge(other, in_place=False)
    independence(ctx, rng, c, mg, "merge-result")
    independence(ctx, rng, other, mg, "merge-result-vs-argument")
    with P("+", continua=[c, other], dissims=[]):
        pl = c + other
    independence(ctx, rng, other, pl, "plus-result-vs-argument")
    recv = c.copy()
    with P("merge(in_place=True) argument", continua=[other], dissims=[]):
        recv.merge(other, in_place=True)
    independence(ctx, rng, other, recv, "in-place-merge-receiver-vs-argument")
    with P("__getitem__/iteration/==/properties", dissims=[]):
        a0 = names[0]
        got = c[a0]
        got.add(pa.Unit(Segment(700.0, 701.0), "INJECTED")) if hasattr(pa, "Unit") else None
        list(c)
        list(c.iter_annotator(a0))
        list(c.iterunits(a0))
        c == other
        c != cp
        c.category_weights, c.avg_length_unit if c.num_units else None, c.max_num_annotations_per_annotator, c.num_annotators
    with P("to_csv", dissims=[]):
        fd, path = tempfile.mkstemp(suffix=".csv", dir=os.environ.get("VERIF_SCRATCH", None))
        os.close(fd)
        try:
            c.to_csv(path)
        finally:
            os.unlink(path)
    # ---- corpus shuffling tool (reference = single annotator continuum)
    ref = cases.build_continuum(case["reference"])
    extra = case.get("extra_categories")
    cst = None
    with P("CorpusShufflingTool()", continua=[ref], dissims=[]):
        cst = pa.CorpusShufflingTool(case["magnitude"], ref, categories=extra)
    if cst is not None:
        corpus = None
        with P("corpus_from_reference", continua=[ref], dissims=[]):
            corpus = cst.corpus_from_reference(case["cst_annotators"])
        if corpus is not None:
            independence(ctx, rng, ref, corpus, "corpus_from_reference")
        for pname in ("shift_shuffle", "false_neg_shuffle", "false_pos_shuffle", "category_shuffle", "splits_shuffle"):
            corpus = cst.corpus_from_reference(case["cst_annotators"])
            with P(pname, continua=[ref], dissims=[]):
                getattr(cst, pname)(corpus)
        shuffled = None
        with P("corpus_shuffle", continua=[ref], dissims=[]):
            shuffled = cst.corpus_shuffle(case["cst_annotators"], shift=True, false_pos=True, false_neg=True, split=True,
                                          cat_shuffle=True, include_ref=False)
        if shuffled is not None:
            independence(ctx, rng, ref, shuffled, "corpus_shuffle")
        # ... and a corpus that includes the reference annotator itself: that row too is the corpus's own
        with_ref = None
        with P("corpus_shuffle(include_ref)", continua=[ref], dissims=[]):
            with_ref = cst.corpus_shuffle(case["cst_annotators"], shift=True, include_ref=True)
        if with_ref is not None:
            from pyannote.core import Segment as _Seg
            ref_name0 = list(ref.annotators)[0]
            s0 = snap(ref)
            ctx.count("M-INDEPENDENT")
            try:
                # edits aimed at the reference annotator's row of the corpus: a new unit, the removal of one, a hand-applied perturbation
                with_ref.add(ref_name0, _Seg(-77.0, -76.0), list(ref.categories)[0] if len(ref.categories) else None)
                victims = [u for u in with_ref._annotations[ref_name0]]
                if len(victims) > 1:
                    with_ref.remove(ref_name0, victims[0])
                cst.false_neg_shuffle(with_ref)
            except Exception as e:
                ctx.observe("include_ref_edit_raises", type(e).__name__)
            d = monitors.diff_snap(s0, snap(ref))
            if d:
                ctx.fail("source-changed-by-mutating:corpus_shuffle(include_ref)", {"diff": d[:4]}, monitor="M-INDEPENDENT")
            # a generated corpus must be usable (aligned) on its own
            with P("get_best_alignment(copy)", continua=[cp2 := c.copy()], dissims=[dissim]):
                cp2.get_best_alignment(dissim)


def gen_case(ctx, dspecs):
    rng = ctx.rng
    dspec = rng.choice(dspecs)
    labels = cases.dissim_labels(dspec) or cases.LABELS_SMALL
    n = rng.randint(2, 4)
    cspec = cases.gen_continuum(rng, n_annot=n, max_units={2: 6, 3: 4, 4: 3}[n], allow_empty=False, labels=labels,
                                family=rng.choice(["grid", "dyadic", "touching", "generic", "nested", "longoverlap"]))
    other = cases.gen_continuum(rng, n_annot=rng.randint(1, 3), max_units=3, labels=labels + ["other-only"], min_total=1,
                                names=rng.sample(cases.ANNOTATOR_NAMES + ["zoe"], 3)[:rng.randint(1, 3)])
    ref = cases.gen_continuum(rng, n_annot=1, sizes=[rng.randint(1, 8)], family=rng.choice(["grid", "dyadic", "touching"]),
                              labels=cases.LABELS_SMALL, names=["Ref"])
    ref["ann"]["Ref"] = [u for u in ref["ann"]["Ref"] if u[1] - u[0] >= 1.0] or [[0.0, 2.0, "a"]]
    windowable = None
    if rng.random() < 0.25:
        windowable = cases.gen_continuum(rng, n_annot=4, sizes=[14] * 4, family="grid", labels=cases.LABELS_SMALL)
    poisoned = None
    if rng.random() < 0.5:
        pcats = ["Adj", "Det", "N"]
        npc = rng.randint(2, 3)       # a long chain of consecutive units per annotator: the unknown label is reached only
        pcs = cases.gen_continuum(rng, n_annot=npc, sizes=[rng.randint(5, 7) for _ in range(npc)], labels=pcats,   # after several windows
                                  family="touching")
        last = max(u[1] for us in pcs["ann"].values() for u in us)
        victim = rng.choice(sorted(pcs["ann"].keys()))
        pcs["ann"][victim].append([last + 5.0, last + 7.0, "UNKNOWN-LABEL"])       # reached only in a late window
        poisoned = {"continuum": pcs, "dissim": {"kind": "combined", "alpha": 3.0, "beta": 1.0, "delta": 1.0, "pos": None,
                                                 "cat": {"kind": "precomputed", "cats": pcats, "delta": 1.0,
                                                         "matrix": [[0.0, 0.5, 1.0], [0.5, 0.0, 0.25], [1.0, 0.25, 0.0]]}}}
    shared = None
    if rng.random() < 0.5:
        comp = cases.gen_dissim(rng, ["precomputed", "levenshtein", "ordinal", "absolute"])
        da, db = rng.sample([0.5, 1.0, 2.0, 3.7], 2)
        shared = {"component": comp, "delta_a": da, "delta_b": db,
                  "continuum": cases.gen_continuum(rng, n_annot=2, max_units=4, allow_empty=False,
                                                   labels=cases.dissim_labels(comp) or cases.LABELS_SMALL)}
    return {"continuum": cspec, "dissim": dspec, "other": other, "reference": ref, "window": rng.randint(1, 4),
            "windowable": windowable, "poisoned": poisoned, "shared_component": shared,
            "unused_category": rng.random() < 0.4, "hand_bounds": rng.choice([None, None, "narrow", "wide"]),
            "magnitude": rng.choice([0.0, 0.3, 0.7, 1.0]), "cst_annotators": rng.choice([2, 3, ["p", "q"]]),
            "extra_categories": rng.choice([None, ["extra-cat"], ["x1", "x2"]]), "np_seed": rng.randrange(2 ** 31)}


def run(ctx):
    ac.setup(ctx)
    dspecs = cases.gen_pool_specs(ctx.rng, ctx.scale(8, 20))
    dspecs.append({"kind": "combined", "alpha": 1.0, "beta": 1.0, "delta": 1.0, "pos": None, "cat": None})
    for _ in range(ctx.scale(28, 900)):
        if ctx.out_of_time():
            break
        case = gen_case(ctx, dspecs)
        ctx.begin_case(case, nontrivial=cases.spec_num_units(case["continuum"]) >= 2)
        ctx.observe("dissim", case["dissim"]["kind"])
        check_case(ctx, case)
