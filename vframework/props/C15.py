"""C15 - the statistical sampler emits valid continua whose statistics follow the supplied / measured laws."""
import math

import numpy as np

from .. import cases, monitors

TITLE = "Statistical sampler emits valid continua with the reference's statistics"
DECIDING = ["M-VALID", "M-LAW-COUNTS", "M-LAW-GAPS", "M-LAW-DURATIONS", "M-LAW-CATEGORIES", "M-MEASURE", "M-REINIT", "M-PRECISION-SETTING", "M-CONCURRENT-DRAWS", "M-PRIOR-INIT"]
LEVEL = "exploration"
RULE = ("(1) per-draw validity on hostile parameter sets (custom: large deviations, zero / negative means, mean number of "
        "units 0, durations near the segment precision, weights None or skewed; reference-initialised: random labelled "
        "continua, ground-truth subsets, and re-initialisation of the same sampler object on the same reference with "
        "another ground truth; pyannote's segment precision changed to 0.05 after import; custom parameters handed over as "
        "numpy arrays that the caller overwrites afterwards): non-empty, annotators == ground truth, every duration above the segment "
        "precision, categories within the reference's / supplied ones - every draw; with a trace monitor on numpy's "
        "global RNG (each normal() carries one of the three (mean, deviation) pairs, each choice() the category array "
        "and weights, unit durations and labels are explained by recorded draws); (2) law: black-box moments over "
        ">= 1500 draws per benign parameter set (generation order == sorted order): unit counts against the exact pmf "
        "of |trunc N|, gaps and durations by mean / variance z-tests, categories by chi-square, all at 6 sigma / "
        "p < 1e-9; (3) init_sampling(reference): held parameters against an independent re-measurement of the reference; (4) histories: the "
        "same sampler object initialised another way (reference / custom with weights, with or without draws; then possibly an initialisation on the judged "
        "reference object that is refused for an unknown annotator) before the judged initialisation; "
        "(5) one sampler object drawn from by 2-8 user threads at once under a law without dispersion for gaps and durations (every annotator "
        "of every sample must be the same arithmetic progression). "
        "non-trivial = every parameter set; distinct by SHA-1 of the parameter set / reference")
ASSUMPTIONS = [
    "thresholds at 6 standard errors / p < 1e-9: the false-alarm rate per run is negligible while a 5 % parameter error is "
    "caught at these sample sizes",
    "for init_sampling(reference) the draws are tested against the parameters the sampler holds after initialisation "
    "(the state named in the property's anchors), and those are compared with a re-measurement: unit counts over all "
    "annotators of the reference (population deviation), all durations, label frequencies, and gaps under the convention "
    "documented in the source (consecutive units of one annotator, each annotator's leading gap when its first unit "
    "starts after 0, and one 0) - that convention is taken from the code's comments, it is not independently derivable",
    "degenerate laws that make the promise unsatisfiable (mean = deviation = 0 for durations) are outside the generator",
    "if the library stops drawing through numpy.random.* the trace monitor records zero evaluations (not deciding) and "
    "the black-box tests alone decide",
]
PRECISION = 1e-6


def plan(tier, seed):
    n = 4 if tier == "quick" else 16
    return {"shards": [{"env": {}, "params": {"time_budget": 70 if tier == "quick" else 700}} for _ in range(n)],
            "timeout": 420 if tier == "quick" else 2700}


_rs = {}


def rng_spy():
    if "spy" not in _rs:
        _rs["spy"] = monitors.RngSpy().install()
    return _rs["spy"]


_shared = {}


def make_sampler(case):
    import pygamma_agreement as pa
    _shared.clear()
    s = pa.StatisticalContinuumSampler()
    prior = case.get("prior_init")
    if prior:
        # the SAME sampler object went through another initialisation before the one that is judged
        if prior["init"] == "custom":
            q = prior["params"]
            s.init_sampling_custom(list(q["annotators"]), q["avg_n"], q["std_n"], q["avg_gap"], q["std_gap"], q["avg_dur"], q["std_dur"],
                                   list(q["categories"]), None if q["weights"] is None else list(q["weights"]))
        else:
            s.init_sampling(cases.build_continuum(prior["continuum"]))
        for _ in range(int(prior.get("draws", 0))):
            s.sample_from_continuum
        if prior.get("then_refused") and case["init"] == "reference":
            # ... and then an initialisation on the judged reference that is refused for its ground truth (the caller catches the
            # error and calls again with valid annotators: that second call is the judged one)
            _shared["continuum"] = cases.build_continuum(case["continuum"])      # the very object of the judged call
            try:
                s.init_sampling(_shared["continuum"], ["no such annotator"])
            except AssertionError:
                pass
    if case["init"] == "custom":
        p = case["params"]
        if case.get("caller_arrays"):
            # the caller hands numpy arrays over and reuses (overwrites) its buffers afterwards
            import numpy as np
            cat_buf = np.array(list(p["categories"]))
            w_buf = None if p["weights"] is None else np.array(list(p["weights"]), dtype=np.float64)
            s.init_sampling_custom(list(p["annotators"]), p["avg_n"], p["std_n"], p["avg_gap"], p["std_gap"], p["avg_dur"],
                                   p["std_dur"], cat_buf, w_buf)
            cat_buf[:] = "tmp0"[:max(1, cat_buf.dtype.itemsize // 4)]
            if w_buf is not None:
                w_buf[:] = 0.0
                w_buf[0] = 1.0
        else:
            s.init_sampling_custom(list(p["annotators"]), p["avg_n"], p["std_n"], p["avg_gap"], p["std_gap"], p["avg_dur"],
                                   p["std_dur"], list(p["categories"]), None if p["weights"] is None else list(p["weights"]))
        gt = sorted(p["annotators"])
        cats = list(p["categories"])
        continuum = None
    else:
        continuum = _shared.pop("continuum", None) or cases.build_continuum(case["continuum"])
        gt = case.get("ground_truth")
        if case.get("vanished_label") and continuum.num_units:
            # a label that was used once and whose units are all gone again (a relabelling): the continuum still lists it
            # among its categories, its frequency in the reference is 0
            from pyannote.core import Segment
            a0 = sorted(case["continuum"]["ann"])[0]
            continuum.add(a0, Segment(5000.0, 5001.0), case["vanished_label"])
            continuum.remove(a0, [u for u in continuum[a0] if u.annotation == case["vanished_label"]][0])
        s.init_sampling(continuum, None if gt is None else list(gt))
        gt = sorted(gt or case["continuum"]["ann"].keys())
        cats = cases.spec_labels(case["continuum"])
    return s, gt, cats, continuum


def held(s):
    w = s._categories_weight
    return {"n": (float(s._avg_nb_units_per_annotator), float(s._std_nb_units_per_annotator)),
            "gap": (float(s._avg_gap), float(s._std_gap)),
            "dur": (float(s._avg_unit_duration), float(s._std_unit_duration)),
            "categories": [str(c) for c in s._categories], "weights": None if w is None else [float(x) for x in w]}


def units_of(sample):
    return {a: [(u.segment.start, u.segment.end, u.annotation) for u in sample._annotations[a]] for a in sample._annotations}


def check_valid(ctx, sample, gt, allowed, where, precision=None):
    PRECISION = precision if precision is not None else globals()["PRECISION"]
    ctx.count("M-VALID")
    us = units_of(sample)
    total = sum(len(v) for v in us.values())
    if total == 0:
        ctx.fail("empty-sample", {"where": where}, monitor="M-VALID")
    if sorted(us.keys()) != sorted(gt):
        ctx.fail("annotators-differ-from-ground-truth", {"got": sorted(us.keys()), "ground_truth": sorted(gt)}, monitor="M-VALID")
    for a, lst in us.items():
        for (s, e, lab) in lst:
            if not (e - s >= PRECISION * (1 - 1e-9)):
                ctx.fail("segment-not-longer-than-precision", {"unit": [s, e, lab]}, monitor="M-VALID")
                return us
            if lab not in allowed:
                ctx.fail("category-outside-the-allowed-set", {"label": repr(lab), "allowed": sorted(map(str, allowed))[:10]},
                         monitor="M-VALID")
                return us
    sample_cats = set(sample.categories)
    if not sample_cats <= set(allowed):
        ctx.fail("sample-categories-outside-the-allowed-set", {"extra": sorted(map(str, sample_cats - set(allowed)))}, monitor="M-VALID")
    return us


def check_trace(ctx, log, us, h, gt):
    """Order-independent explanation of the sample by the recorded draws."""
    normals = [(a, k, r) for (name, tid, a, k, r) in log if name == "normal"]
    choices = [(a, k, r) for (name, tid, a, k, r) in log if name == "choice"]
    if not normals:
        return
    ctx.count("M-TRACE")
    kinds = {"n": [], "gap": [], "dur": []}
    pairs = {k: h[k] for k in ("n", "gap", "dur")}
    for a, k, r in normals:
        loc = a[0] if len(a) > 0 else k.get("loc", 0.0)
        scale = a[1] if len(a) > 1 else k.get("scale", 1.0)
        matched = [name for name, (m, sd) in pairs.items() if float(loc) == m and float(scale) == sd]
        if not matched:
            ctx.fail("normal-draw-with-foreign-parameters", {"loc": float(loc), "scale": float(scale), "held": pairs}, monitor="M-TRACE")
            return
        for name in matched:
            kinds[name].append(float(r))
    ambiguous = len({pairs["n"], pairs["gap"], pairs["dur"]}) < 3
    total = sum(len(v) for v in us.values())
    durations = sorted(e - s for lst in us.values() for (s, e, _) in lst)
    labels = sorted(str(l) for lst in us.values() for (_, _, l) in lst)
    drawn_labels = sorted(str(r) for _, _, r in choices)
    if labels != drawn_labels and len(set((s, e, l) for lst in us.values() for (s, e, l) in lst)) == len(drawn_labels):
        ctx.fail("labels-not-explained-by-category-draws", {"labels": labels[:10], "drawn": drawn_labels[:10]}, monitor="M-TRACE")
    for a, k, r in choices:
        arr = [str(x) for x in (a[0] if a else k.get("a"))]
        p = k.get("p")
        # compared as a mapping category -> weight: the order in which the arrays are held is not part of the law
        want = dict(zip(h["categories"], h["weights"] or [None] * len(h["categories"])))
        got = dict(zip(arr, [float(x) for x in p] if p is not None else [None] * len(arr)))
        if got != want or len(arr) != len(h["categories"]):
            ctx.fail("category-draw-with-foreign-categories-or-weights", {"a": arr[:8], "p": None if p is None else list(map(float, p))[:8],
                                                                          "held": [h["categories"][:8], h["weights"]]}, monitor="M-TRACE")
            return
    if ambiguous:
        return
    if len(kinds["n"]) != len(gt):
        ctx.fail("unit-count-draws-differ-from-annotators", {"draws": len(kinds["n"]), "annotators": len(gt)}, monitor="M-TRACE")
    lo = sum(abs(int(c)) for c in kinds["n"])
    hi = sum(max(1, abs(int(c))) for c in kinds["n"])
    if not (lo <= total <= hi):
        ctx.fail("unit-total-not-explained-by-count-draws", {"total": total, "draws": kinds["n"]}, monitor="M-TRACE")
    accepted = sorted(abs(d) for d in kinds["dur"])
    # every unit duration equals some |duration draw| up to the rounding of (start + |d|) - start; unmatched draws
    # must be the rejected (sub-precision) ones
    tmax = max([abs(t) for lst in us.values() for (s_, e_, _) in lst for t in (s_, e_)] + [1.0])
    eps = 8 * tmax * 2.3e-16 + 1e-18
    i = 0
    unmatched = []
    for d in durations:
        while i < len(accepted) and accepted[i] < d - eps:
            unmatched.append(accepted[i])
            i += 1
        if i >= len(accepted) or abs(accepted[i] - d) > eps:
            ctx.fail("duration-not-explained-by-duration-draws", {"duration": d, "draws": accepted[:10]}, monitor="M-TRACE")
            return
        i += 1
    unmatched += accepted[i:]
    if any(x >= PRECISION + eps for x in unmatched):
        ctx.fail("duration-draw-neither-used-nor-rejectable", {"unmatched": [x for x in unmatched if x >= PRECISION + eps][:5],
                                                                "eps": eps}, monitor="M-TRACE")
    if len(kinds["gap"]) != total and len(set(durations)) == len(durations):
        ctx.fail("gap-draws-differ-from-units", {"gap_draws": len(kinds["gap"]), "units": total}, monitor="M-TRACE")


# ------------------------------------------------------------------------------------------- laws (benign regime)
def trunc_abs_pmf(mu, sigma, kmax):
    from scipy.stats import norm
    pm = []
    for k in range(kmax + 1):
        if k == 0:
            p = norm.cdf(1, mu, sigma) - norm.cdf(-1, mu, sigma)
        else:
            p = (norm.cdf(k + 1, mu, sigma) - norm.cdf(k, mu, sigma)) + (norm.cdf(-k, mu, sigma) - norm.cdf(-k - 1, mu, sigma))
        pm.append(p)
    return np.array(pm)


def chi2_p(obs, exp):
    from scipy.stats import chi2
    obs, exp = np.asarray(obs, float), np.asarray(exp, float)
    # pool tail classes with small expectation
    order = np.argsort(exp)
    pooled_o, pooled_e = [], []
    acc_o = acc_e = 0.0
    for i in order:
        acc_o += obs[i]
        acc_e += exp[i]
        if acc_e >= 8:
            pooled_o.append(acc_o)
            pooled_e.append(acc_e)
            acc_o = acc_e = 0.0
    if acc_e > 0:
        if pooled_e:
            pooled_o[-1] += acc_o
            pooled_e[-1] += acc_e
        else:
            pooled_o.append(acc_o)
            pooled_e.append(acc_e)
    if len(pooled_e) < 2:
        return 1.0, 0.0
    o, e = np.array(pooled_o), np.array(pooled_e)
    stat = float(((o - e) ** 2 / e).sum())
    return float(chi2.sf(stat, len(e) - 1)), stat


def check_laws(ctx, case, h, gt, samples_units):
    counts, gaps, durs, labs = [], [], [], []
    for us in samples_units:
        for a in gt:
            lst = us.get(a, [])
            counts.append(len(lst))
            prev = 0.0
            for (s, e, lab) in lst:     # sorted order == generation order in the benign regime
                gaps.append(s - prev)
                durs.append(e - s)
                labs.append(str(lab))
                prev = e
    detail = {"held": {k: h[k] for k in ("n", "gap", "dur")}, "draws": len(samples_units), "units": len(durs)}
    # ---- counts: exact pmf of |trunc N(mu, sigma)|
    mu, sd = h["n"]
    ctx.count("M-LAW-COUNTS")
    if sd > 0:
        kmax = max(max(counts), int(mu + 8 * sd) + 2)
        pmf = trunc_abs_pmf(mu, sd, kmax)
        obs = np.bincount(np.array(counts), minlength=kmax + 1)[:kmax + 1]
        p, stat = chi2_p(obs, pmf * len(counts))
        ctx.observe("p_counts_log10", int(math.floor(math.log10(max(p, 1e-300)))))
        if p < 1e-9:
            ctx.fail("unit-counts-do-not-follow-the-law", dict(detail, chi2=stat, p=p, observed_mean=float(np.mean(counts)),
                                                              observed_std=float(np.std(counts))), monitor="M-LAW-COUNTS")
    elif set(counts) != {abs(int(mu))}:
        ctx.fail("unit-counts-do-not-follow-the-law", dict(detail, observed=sorted(set(counts))[:8]), monitor="M-LAW-COUNTS")
    # ---- gaps and durations: mean / variance z-tests
    for name, data, mon in (("gap", gaps, "M-LAW-GAPS"), ("dur", durs, "M-LAW-DURATIONS")):
        mu, sd = h[name]
        ctx.count(mon)
        x = np.asarray(data, float)
        n = len(x)
        if n < 200:
            ctx.inconclusive_because(f"too few units ({n}) to judge the {name} law")
            continue
        if sd == 0:
            if np.max(np.abs(x - mu)) > 1e-6 * (1 + abs(mu)):
                ctx.fail(f"{name}s-do-not-follow-the-law", dict(detail, what="deviation 0 but values vary"), monitor=mon)
            continue
        z_mean = (x.mean() - mu) / (sd / math.sqrt(n))
        z_var = (x.var() - sd * sd) / (sd * sd * math.sqrt(2.0 / (n - 1)))
        ctx.observe(f"z_{name}_mean_abs_floor", int(min(9, abs(z_mean))))
        ctx.observe(f"z_{name}_var_abs_floor", int(min(9, abs(z_var))))
        if abs(z_mean) > 6 or abs(z_var) > 6:
            ctx.fail(f"{name}s-do-not-follow-the-law", dict(detail, observed_mean=float(x.mean()), observed_std=float(x.std()),
                                                           z_mean=float(z_mean), z_var=float(z_var), n=n), monitor=mon)
    # ---- categories
    ctx.count("M-LAW-CATEGORIES")
    cats = h["categories"]
    w = h["weights"] if h["weights"] is not None else [1.0 / len(cats)] * len(cats)
    obs = [labs.count(c) for c in cats]
    if sum(obs) != len(labs):
        ctx.fail("category-outside-the-allowed-set", {"labels": sorted(set(labs) - set(cats))[:5]}, monitor="M-LAW-CATEGORIES")
    elif len(cats) > 1:
        p, stat = chi2_p(obs, np.array(w) * len(labs))
        ctx.observe("p_categories_log10", int(math.floor(math.log10(max(p, 1e-300)))))
        zero_weight_hit = any(o > 0 and ww == 0 for o, ww in zip(obs, w))
        if p < 1e-9 or zero_weight_hit:
            ctx.fail("categories-do-not-follow-the-weights", dict(detail, observed=dict(zip(cats, obs)), weights=dict(zip(cats, w)),
                                                                  chi2=stat, p=p), monitor="M-LAW-CATEGORIES")


# ------------------------------------------------------------------------------------------- re-measurement
def remeasure(cspec):
    ann = cspec["ann"]
    n_units = [len(us) for us in ann.values()]
    durs = [u[1] - u[0] for us in ann.values() for u in us]
    gaps = [0.0]
    for a in sorted(ann):
        us = sorted(ann[a], key=cases.unit_key)
        for i in range(1, len(us)):
            gaps.append(us[i][0] - us[i - 1][1])
    for a in sorted(ann):
        us = sorted(ann[a], key=cases.unit_key)
        if us and us[0][0] > 0:
            gaps.append(us[0][0])
    labels = sorted({u[2] for us in ann.values() for u in us})
    total = sum(n_units)
    return {"n": (float(np.mean(n_units)), float(np.std(n_units))), "gap": (float(np.mean(gaps)), float(np.std(gaps))),
            "dur": (float(np.mean(durs)), float(np.std(durs))), "categories": labels,
            "weights": [sum(1 for us in ann.values() for u in us if u[2] == l) / total for l in labels]}


def check_measure(ctx, h, cspec):
    ctx.count("M-MEASURE")
    ref = remeasure(cspec)
    for k in ("n", "gap", "dur"):
        for i, what in enumerate(("mean", "deviation")):
            if abs(h[k][i] - ref[k][i]) > 1e-9 * (1 + abs(ref[k][i])):
                ctx.fail(f"measured-{k}-{what}-differs-from-the-reference", {"held": h[k], "re-measured": ref[k]}, monitor="M-MEASURE")
    # compared as the law they define: category -> frequency, categories of frequency 0 (labels the continuum still lists
    # although no unit carries them any more) left out
    held = {c: w for c, w in zip(h["categories"], h["weights"] or []) if w > 0}
    want = {c: w for c, w in zip(ref["categories"], ref["weights"]) if w > 0}
    if h["weights"] is None or sorted(held) != sorted(want):
        ctx.fail("measured-categories-differ-from-the-reference", {"held": [h["categories"], h["weights"]], "reference": [ref["categories"], ref["weights"]]},
                 monitor="M-MEASURE")
    elif any(abs(held[c] - want[c]) > 1e-9 for c in want):
        ctx.fail("measured-category-frequencies-differ-from-the-reference", {"held": held, "reference": want},
                 monitor="M-MEASURE")


# ------------------------------------------------------------------------------------------- cases
def check_concurrent_draws(ctx, case):
    """ONE sampler object drawn from by several user threads at once, with a law without dispersion for gaps and durations
    (deviation 0): whatever the interleaving, every annotator of every sample is the same arithmetic progression."""
    from . import _align_common as ac
    import pygamma_agreement as pa
    p = case["params"]
    s = pa.StatisticalContinuumSampler()
    s.init_sampling_custom(list(p["annotators"]), p["avg_n"], p["std_n"], p["avg_gap"], 0.0, p["avg_dur"], 0.0,
                           list(p["categories"]), None if p["weights"] is None else list(p["weights"]))
    gt = sorted(p["annotators"])
    np.random.seed(case["np_seed"])

    def work():
        return [units_of(s.sample_from_continuum) for _ in range(case["draws"])]
    for k, (res, exc) in enumerate(ac.concurrent_calls([work] * case["threads"])):
        ctx.count("M-CONCURRENT-DRAWS")
        if exc is not None:
            ctx.fail_exc(f"concurrent-draws:raises:{type(exc).__name__}", exc, monitor="M-CONCURRENT-DRAWS")
            continue
        for us in res:
            ctx.count("M-VALID")
            if sorted(us.keys()) != gt or not any(us.values()):
                ctx.fail("concurrent-draws:invalid-sample", {"annotators": sorted(us.keys()), "expected": gt}, monitor="M-CONCURRENT-DRAWS")
                break
            bad = None
            for a, units in us.items():
                last = 0.0
                for (st, en, lab) in units:
                    st_exp = last + p["avg_gap"]
                    en_exp = st_exp + abs(p["avg_dur"])
                    if abs(st - st_exp) > 1e-9 * max(1.0, abs(st_exp)) or abs(en - en_exp) > 1e-9 * max(1.0, abs(en_exp)) or lab not in p["categories"]:
                        bad = {"annotator": a, "unit": [st, en, lab], "expected": [st_exp, en_exp], "thread": k}
                        break
                    last = en
                if bad:
                    break
            if bad:
                ctx.fail("concurrent-draws:units-do-not-follow-the-supplied-law", bad, monitor="M-CONCURRENT-DRAWS")
                break


def check_case(ctx, case):
    if case.get("threads"):
        return check_concurrent_draws(ctx, case)
    if case.get("segment_precision") and not case.get("_inner"):
        # the segment precision is a run-time setting of pyannote: the sampler must honour the value in force when it draws
        import pyannote.core.segment as seg
        old = seg.SEGMENT_PRECISION
        seg.SEGMENT_PRECISION = case["segment_precision"]
        try:
            ctx.count("M-PRECISION-SETTING")
            return check_case(ctx, dict(case, _inner=True))
        finally:
            seg.SEGMENT_PRECISION = old
    spy = rng_spy()
    if case.get("prior_init"):
        ctx.count("M-PRIOR-INIT")
    try:
        sampler, gt, cats, continuum = make_sampler(case)
    except Exception as e:
        ctx.fail_exc(f"init-raises:{type(e).__name__}", e, monitor="M-VALID")
        return
    h = held(sampler)
    if case["init"] == "reference":
        check_measure(ctx, h, case["continuum"])
    else:
        # custom initialisation is judged against the parameters that were SUPPLIED, not against what the sampler holds
        p = case["params"]
        h = {"n": (float(p["avg_n"]), float(p["std_n"])), "gap": (float(p["avg_gap"]), float(p["std_gap"])),
             "dur": (float(p["avg_dur"]), float(p["std_dur"])), "categories": [str(c) for c in p["categories"]],
             "weights": None if p["weights"] is None else [float(w) for w in p["weights"]]}
    allowed = set(cats)
    before = None if continuum is None else monitors.snapshot_continuum(continuum)
    np.random.seed(case["np_seed"])
    collected = []
    for i in range(case["draws"]):
        try:
            with spy.recording(limit=200000) as log:
                sample = sampler.sample_from_continuum
        except monitors.DrawBudgetExceeded as e:
            ctx.fail("sampling-does-not-terminate", {"message": str(e), "held": h}, monitor="M-VALID")
            return
        except Exception as e:
            ctx.fail_exc(f"sampling-raises:{type(e).__name__}", e, monitor="M-VALID")
            return
        us = check_valid(ctx, sample, gt, allowed, case["init"], precision=case.get("segment_precision"))
        if (i < 40 or i % 25 == 0) and not case.get("segment_precision"):
            check_trace(ctx, list(log), us, h, gt)
        if case.get("benign"):
            collected.append(us)
    # re-initialisation history: the same sampler object, the same reference object, another ground truth
    if case.get("reinit_ground_truth") is not None and continuum is not None:
        gt2 = sorted(case["reinit_ground_truth"]) or sorted(case["continuum"]["ann"].keys())
        try:
            sampler.init_sampling(continuum, list(case["reinit_ground_truth"]) or None)
            ctx.count("M-REINIT")
            for i in range(10):
                check_valid(ctx, sampler.sample_from_continuum, gt2, allowed, "reference/re-initialised")
        except Exception as e:
            ctx.fail_exc(f"reinit-raises:{type(e).__name__}", e, monitor="M-VALID")
    if before is not None and monitors.diff_snap(before, monitors.snapshot_continuum(continuum)):
        ctx.fail("reference-modified-by-sampling", {"diff": monitors.diff_snap(before, monitors.snapshot_continuum(continuum))},
                 monitor="M-VALID")
    if case.get("benign"):
        check_laws(ctx, case, h, gt, collected)


def benign_custom(rng):
    k = rng.randint(2, 6)
    cats = rng.sample(cases.LABELS_WORDS, k)
    weights = None
    if rng.random() < 0.7:
        raw = [rng.choice([0.0, 1, 1, 2, 5, 10]) for _ in cats]
        if sum(raw) == 0:
            raw[0] = 1
        weights = [x / sum(raw) for x in raw]
    avg_dur = rng.uniform(2, 30)
    avg_gap = rng.uniform(2, 30)
    return {"annotators": cases.ANNOTATOR_NAMES[:rng.randint(2, 4)], "avg_n": rng.uniform(5, 14), "std_n": rng.uniform(0.4, 1.6),
            "avg_gap": avg_gap, "std_gap": avg_gap / rng.uniform(6.5, 20), "avg_dur": avg_dur,
            "std_dur": avg_dur / rng.uniform(6.5, 20), "categories": cats, "weights": weights}


def hostile_custom(rng):
    k = rng.randint(1, 5)
    cats = rng.sample(cases.LABELS_WORDS, k)
    weights = None
    if rng.random() < 0.5:
        raw = [rng.choice([0.0, 1, 3]) for _ in cats]
        if sum(raw) == 0:
            raw[-1] = 1
        weights = [x / sum(raw) for x in raw]
    return {"annotators": cases.ANNOTATOR_NAMES[:rng.randint(1, 5)], "avg_n": rng.choice([0, 0.4, 1, 3, 8, -4]),
            "std_n": rng.choice([0, 0.5, 3, 10]), "avg_gap": rng.choice([0, -5, 1, 10, 1e-7]), "std_gap": rng.choice([0, 1, 30]),
            "avg_dur": rng.choice([0, 1e-6, 2e-6, 1, 12, -3]), "std_dur": rng.choice([1e-6, 1e-3, 1, 20]),
            "categories": cats, "weights": weights}


def benign_reference(rng):
    n = rng.randint(2, 4)
    labels = rng.sample(cases.LABELS_WORDS, rng.randint(2, 5))
    dur0, gap0 = rng.uniform(3, 10), rng.uniform(6, 14)
    nu = rng.randint(25, 40)
    ann = {}
    for name in cases.ANNOTATOR_NAMES[:n]:
        t = 0.0
        us = []
        for _ in range(nu + rng.choice([-1, 0, 0, 1])):
            t += gap0 * rng.uniform(0.93, 1.07)
            d = dur0 * rng.uniform(0.93, 1.07)
            us.append([t, t + d, rng.choice(labels + labels[:1])])
            t += d
        ann[name] = us
    return {"ann": ann, "family": "regular"}


def run(ctx):
    rng = ctx.rng
    rng_spy()
    plan_ = []
    for _ in range(ctx.scale(2, 12)):
        plan_.append({"init": "custom", "params": benign_custom(rng), "benign": True, "draws": ctx.scale(1500, 4000)})
    for _ in range(ctx.scale(1, 6)):
        plan_.append({"init": "reference", "continuum": benign_reference(rng), "benign": True, "draws": ctx.scale(1500, 4000),
                      "ground_truth": None})
    for _ in range(ctx.scale(25, 600)):
        plan_.append({"init": "custom", "params": hostile_custom(rng), "benign": False, "draws": 40})
    for _ in range(ctx.scale(25, 600)):
        n = rng.randint(2, 5)
        cspec = cases.gen_continuum(rng, n_annot=n, max_units=rng.randint(1, 8), min_total=2, allow_empty=rng.random() < 0.3,
                                    labels=rng.choice([cases.LABELS_SMALL, cases.LABELS_WORDS, ["only"]]))
        names = sorted(cspec["ann"].keys())
        gt = sorted(rng.sample(names, rng.randint(2, n))) if (n >= 3 and rng.random() < 0.4) else None
        if rng.random() < 0.3:
            # sparse reference (about one unit per annotator: a count draw of 0 is likely) and a ground truth that leaves
            # out some annotators, the alphabetically first one included
            n = rng.randint(3, 5)
            sizes = [0]
            while sum(sizes) < 2:
                sizes = [rng.choice([0, 1, 1, 1, 2]) for _ in range(n)]
            cspec = cases.gen_continuum(rng, n_annot=n, sizes=sizes, min_total=2,
                                        labels=cases.LABELS_SMALL, names=cases.pick_names(rng, n))
            names = sorted(cspec["ann"].keys())
            gt = sorted(rng.sample(names[1:], rng.randint(1, n - 1)))
        case = {"init": "reference", "continuum": cspec, "ground_truth": gt, "benign": False, "draws": 60}
        if rng.random() < 0.35:
            case["vanished_label"] = rng.choice(["0 gone", "A-gone", "M", "zz gone"])     # sorts before / among / after the labels in use
        if n >= 3 and rng.random() < 0.6:
            case["reinit_ground_truth"] = rng.choice([[], sorted(rng.sample(names, rng.randint(2, n)))])
        plan_.append(case)
    for _ in range(ctx.scale(2, 12)):
        params = {"annotators": cases.ANNOTATOR_NAMES[:rng.randint(2, 3)], "avg_n": 6.0, "std_n": 1.0, "avg_gap": 1.0, "std_gap": 0.3,
                  "avg_dur": rng.choice([0.06, 0.08, 0.12]), "std_dur": 0.05, "categories": ["a", "b"], "weights": None}
        plan_.append({"init": "custom", "params": params, "benign": False, "draws": 40, "segment_precision": 0.05})
    for _ in range(ctx.scale(1, 4)):
        case = {"init": "custom", "params": benign_custom(rng), "benign": True, "draws": ctx.scale(800, 3000), "caller_arrays": True}
        plan_.append(case)
    # the same sampler object initialised another way before the judged initialisation (custom after reference / custom with
    # weights; reference after custom)
    for _ in range(ctx.scale(8, 150)):
        prior = ({"init": "custom", "params": dict(hostile_custom(rng), avg_n=3, std_n=1, avg_dur=2.0, std_dur=0.5), "draws": rng.choice([0, 2])}
                 if rng.random() < 0.5 else
                 {"init": "reference", "continuum": cases.gen_continuum(rng, n_annot=3, max_units=5, min_total=3, allow_empty=False,
                                                                      labels=rng.choice([cases.LABELS_SMALL, ["only"], cases.LABELS_WORDS[:4]])),
                  "draws": rng.choice([0, 2])})
        if rng.random() < 0.6:
            params = benign_custom(rng)
            if rng.random() < 0.6:
                params["weights"] = None       # no weights this time: a uniform law over the supplied categories
            if rng.random() < 0.5 and prior["init"] == "reference":
                params["categories"] = cases.spec_labels(prior["continuum"]) or params["categories"]    # the same number of categories as before
                params["weights"] = None
            plan_.append({"init": "custom", "params": params, "benign": False, "draws": 40, "prior_init": prior})
        else:
            cspec = cases.gen_continuum(rng, n_annot=3, max_units=6, min_total=3, allow_empty=False, labels=cases.LABELS_WORDS[:5])
            prior["then_refused"] = rng.random() < 0.5
            plan_.append({"init": "reference", "continuum": cspec, "ground_truth": None, "benign": False, "draws": 40, "prior_init": prior,
                          "same_object_refused": prior["then_refused"]})
    # one sampler object, several user threads drawing at once, a law without dispersion for gaps and durations
    for _ in range(ctx.scale(3, 40)):
        params = benign_custom(rng)
        plan_.append({"init": "custom", "params": params, "benign": False, "threads": rng.choice([2, 4, 8]), "draws": 12})
    plan_.sort(key=lambda c: bool(c.get("benign")))     # the cheap per-draw validity cases first, the long law runs last
    for case in plan_:
        if ctx.out_of_time() and not case.get("benign"):
            continue
        case["np_seed"] = rng.randrange(2 ** 31)
        ctx.begin_case(case)
        ctx.observe("kind", f"{case['init']}/{'benign' if case['benign'] else 'hostile'}")
        check_case(ctx, case)
