"""C16 - the shuffle sampler emits wrapped translations of ground-truth annotators with separated pivots."""
import itertools
import math

import numpy as np

from .. import cases, monitors

TITLE = "Shuffle sampler emits wrapped translations with separated pivots"
DECIDING = ["M-SHUFFLE", "M-SEPARATION", "M-INTEGRAL", "M-REINIT", "M-CONCURRENT-DRAWS", "M-GT-ALIAS"]
LEVEL = "exploration"
RULE = ("seeded random reference continua (2-5 annotators, some possibly empty, labelled and unlabelled, integer / "
        "dyadic / generic times, negative times, default bounds or reset bounds) x ground-truth subsets (>= 2, holding at "
        "least one unit) x both pivot types (given as the literal, as an equal string built at run time, or as a numpy string) x 30 (quick) / 100 (thorough) draws each; in 30 % of the cases the same "
        "cases 2-4 threads then draw from the same sampler concurrently (switch interval 1e-6); in 30 % the "
        "sampler object is then re-initialised on a second reference with much longer units and sampled again; in 30 % the reference reaches the "
        "sampler through copy() / an out-of-place merge / + / an in-place merge of two halves; half of the 3+ ground truths are handed over as a SortedSet "
        "that the caller edits after init_sampling; the minimal pivot distance is computed from the case's own unit durations; for every sample the monitor "
        "infers, from the output alone, for each sampled annotator a source annotator and a pivot that explain all its "
        "units (translation, wrap-around by the continuum's length, same labels and durations), then checks pivot "
        "bounds, integrality and pairwise separation. non-trivial = sample of a reference with >= 2 units; distinct = "
        "distinct (reference, ground truth, pivot type, numpy seed)")
ASSUMPTIONS = [
    "'long enough to keep them apart' is read as L > (k-1)*avg_unit_length for k ground-truth annotators: removing k-1 "
    "forbidden zones of width avg_length then provably leaves room for the k-th pivot; below that no separation is demanded",
    "separation is demanded for some choice of explaining pivots when the output admits several (e.g. p and p -/+ L)",
    "float tolerance 1e-6*(1+|t|) on times; pivots may exceed the bounds by that tolerance only",
    "known finding D12 (int pivots truncated toward zero) is recognised only when the pivot type is int and the "
    "deficit (separation or bounds) is strictly below 1",
    "an internal spy on _random_from_segments is used only to print the drawn pivots in witnesses and to count how often "
    "the inference recovers them",
]


def plan(tier, seed):
    n = 4 if tier == "quick" else 16
    return {"shards": [{"env": {}, "params": {"time_budget": 60 if tier == "quick" else 600, "current_every": 1}}
                       for _ in range(n)], "timeout": 400 if tier == "quick" else 2400}


def tol(t):
    return 1e-6 * (1 + abs(t))


def explain(sampled, source, inf, sup):
    """All pivots p (from the output alone) such that `sampled` == wrapped translation of `source` by p."""
    L = sup - inf
    if len(sampled) != len(source) or not source:
        return [0.0] if (not source and not sampled) else []
    cands = set()
    u0 = source[0]
    for s in sampled:
        base = s[0] - u0[0]
        cands.add(base)
        cands.add(base + L)
    out = []
    for p in sorted(cands):
        mapped = []
        for (s, e, lab) in source:
            if s + p > sup:
                mapped.append((s + p + inf - sup, e + p + inf - sup, lab))
            else:
                mapped.append((s + p, e + p, lab))
        # units whose shifted start is within rounding of the upper bound may legitimately fall on either side
        if _same(sorted(mapped, key=cases.unit_key), sampled):
            out.append(p)
        else:
            alt = []
            for (s, e, lab) in source:
                if s + p > sup - tol(sup):
                    alt.append((s + p + inf - sup, e + p + inf - sup, lab))
                else:
                    alt.append((s + p, e + p, lab))
            if _same(sorted(alt, key=cases.unit_key), sampled):
                out.append(p)
    return out


def _same(a, b):
    if len(a) != len(b):
        return False
    a = sorted(a, key=lambda u: (round(u[0], 5), round(u[1], 5), str(u[2])))
    b = sorted(b, key=lambda u: (round(u[0], 5), round(u[1], 5), str(u[2])))
    for x, y in zip(a, b):
        if x[2] != y[2] or abs(x[0] - y[0]) > tol(x[0]) or abs(x[1] - y[1]) > tol(x[1]):
            return False
    return True


_spy = {}


def install_spy():
    import pygamma_agreement.sampler as ps
    if _spy:
        return
    orig = ps.ShuffleContinuumSampler._random_from_segments
    _spy["pivots"] = []

    def spy(self, segments):
        segs = [(s.start, s.end) for s in segments]
        p = orig(self, segments)
        _spy["pivots"].append((float(p), segs))
        return p
    ps.ShuffleContinuumSampler._random_from_segments = spy


def check_sample(ctx, case, ref, gt, sample, drawn):
    """ref: continuum spec dict annotator -> sorted unit tuples; sample: library continuum."""
    inf, sup = case["_bounds"]
    L = sup - inf
    ctx.count("M-SHUFFLE")
    names = list(sample.annotators)
    units = {a: [(u.segment.start, u.segment.end, u.annotation) for u in sample._annotations[a]] for a in names}
    total = sum(len(v) for v in units.values())
    witness = {"drawn_pivots": [p for p, _ in drawn], "available_segments": [s for _, s in drawn][:5],
               "bounds": [inf, sup], "sample": {a: units[a][:6] for a in names}}
    if total == 0:
        ctx.fail("empty-sample", witness, monitor="M-SHUFFLE")
        return
    if len(names) != len(gt):
        ctx.fail("wrong-number-of-annotators", dict(witness, got=len(names), ground_truth=len(gt)), monitor="M-SHUFFLE")
        return
    options = []   # per sampled annotator: list of (source, pivot)
    for a in names:
        opts = []
        for src in gt:
            for p in explain(units[a], ref[src], inf, sup):
                opts.append((src, p))
        if not opts:
            ctx.fail("not-a-wrapped-translation-of-a-ground-truth-annotator", dict(witness, annotator=a), monitor="M-SHUFFLE")
            return
        options.append(opts)
    int_mode = case["pivot_type"] == "int_pivot"
    # bounds / integrality: at least one explaining pivot must satisfy them
    for a, opts in zip(names, options):
        nontrivial_opts = [(s, p) for s, p in opts if ref[s]]
        if not nontrivial_opts:
            continue   # an empty source annotator says nothing about its pivot
        best_def = min(max(inf - p, p - sup, 0.0) for _, p in nontrivial_opts)
        if best_def > tol(sup):
            key = "pivot-outside-bounds"
            if int_mode and best_def < 1:
                key = "D12:int-pivot-truncation-deficit-below-1"
            ctx.fail(key, dict(witness, annotator=a, pivots=[p for _, p in nontrivial_opts], outside_by=best_def,
                               kind="bounds"), monitor="M-SHUFFLE")
        # (integrality is promised under the same "long enough" condition as the separation: when the available
        #  segments run out the library draws the pivot uniformly, in both modes)
        if int_mode and L > (len(gt) - 1) * case["_avg_len"]:
            ctx.count("M-INTEGRAL")
            if not any(abs(p - round(p)) <= tol(p) for _, p in nontrivial_opts):
                ctx.fail("int-mode-pivot-not-whole", dict(witness, annotator=a, pivots=[p for _, p in nontrivial_opts]),
                         monitor="M-SHUFFLE")
    # separation
    k = len(gt)
    avg = case["_avg_len"]
    if L > (k - 1) * avg:
        ctx.count("M-SEPARATION")
        cand = [[p for s, p in opts if ref[s]] or [None] for opts in options]
        best = None
        for combo in itertools.islice(itertools.product(*cand), 4000):
            ps = [p for p in combo if p is not None]
            deficit = 0.0
            for i in range(len(ps)):
                for j in range(i):
                    deficit = max(deficit, avg / 2 - abs(ps[i] - ps[j]))
            if best is None or deficit < best[0]:
                best = (deficit, ps)
            if deficit <= tol(sup):
                break
        if best is not None and best[0] > tol(sup):
            key = "pivots-closer-than-half-the-average-unit-length"
            if int_mode and best[0] < 1:
                key = "D12:int-pivot-truncation-deficit-below-1"
            ctx.fail(key, dict(witness, pivots=best[1], minimum_distance=avg / 2, deficit=best[0], kind="separation",
                               length=L, k=k), monitor="M-SEPARATION")
    else:
        ctx.observe("separation_not_demanded", True)
    # how often the inference recovers the pivots actually drawn
    if drawn:
        rec = all(any(abs(p - d) <= tol(d) or abs(p - L - d) <= tol(d) or abs(p + L - d) <= tol(d) for _, p in opts) or
                  not any(ref[s] for s, _ in opts) for opts, (d, _) in zip(options, drawn))
        ctx.observe("inference_recovers_drawn_pivots", rec)


def check_case(ctx, case):
    import pygamma_agreement as pa
    install_spy()
    # the pivot type as a user's program holds it: a literal, a string built at run time (read from a file, argv, JSON:
    # equal to the literal but another object), or a numpy string
    pt, form = case["pivot_type"], case.get("pivot_str", "literal")
    pt = {"literal": "int_pivot" if pt == "int_pivot" else "float_pivot", "built": "".join(list(pt)),
          "np.str_": np.str_(pt)}[form]
    ctx.observe("pivot_str", form)
    sampler = pa.ShuffleContinuumSampler(pivot_type=pt)
    np.random.seed(case["np_seed"])
    _check_reference(ctx, case, sampler, case["continuum"], case["ground_truth"])
    if case.get("then"):
        # re-initialisation history: the SAME sampler object now serves another reference continuum
        ctx.count("M-REINIT")
        _check_reference(ctx, case, sampler, case["then"]["continuum"], case["then"]["ground_truth"])


def _check_reference(ctx, case, sampler, cspec, ground_truth):
    rng_spy = _state_rng()
    case = dict(case, ground_truth=ground_truth)
    continuum = cases.build_continuum(cspec)
    via = case.get("built_via")
    if via:
        # the reference reaches the sampler through copy() / an out-of-place merge / + / an in-place merge of two halves
        # (equal, by ==, to the continuum built directly)
        from pygamma_agreement import Continuum
        names_ = sorted(cspec["ann"].keys())
        half_a = {"ann": {a: us[: len(us) // 2] for a, us in cspec["ann"].items()}}
        half_b = {"ann": {a: us[len(us) // 2:] for a, us in cspec["ann"].items()}}
        ca, cb = cases.build_continuum(half_a), cases.build_continuum(half_b)
        if via == "copy":
            continuum = continuum.copy()
        elif via == "merge":
            continuum = ca.merge(cb, in_place=False)
        elif via == "plus":
            continuum = ca + cb
        elif via == "merge-in-place":
            ca.merge(cb, in_place=True)
            continuum = ca
        ctx.observe("reference_built_via", via)
        if cases.spec_of(continuum)["ann"] != {a: [list(u) for u in sorted((tuple(x) for x in cspec["ann"][a]), key=cases.unit_key)] for a in names_}:
            ctx.observe("reference_built_via_differs", via)      # C13's business; the sampler is judged on what it was given
            return
    if case.get("reset_bounds"):
        continuum.reset_bounds()
    gt = ground_truth or sorted(cspec["ann"].keys())
    ref = {a: sorted((tuple(u) for u in cspec["ann"][a]), key=cases.unit_key) for a in cspec["ann"]}
    case["_bounds"] = tuple(continuum.bounds)
    # mean duration of the reference's units, from the case itself (not through the library)
    durs = [u[1] - u[0] for us in cspec["ann"].values() for u in us]
    case["_avg_len"] = sum(durs) / len(durs)
    gt_arg = None if ground_truth is None else list(ground_truth)
    if ground_truth is not None and case.get("gt_as") == "sortedset-edited-afterwards":
        from sortedcontainers import SortedSet
        gt_arg = SortedSet(ground_truth)
    try:
        sampler.init_sampling(continuum, gt_arg)
    except Exception as e:
        ctx.fail_exc(f"init_sampling-raises:{type(e).__name__}", e, monitor="M-SHUFFLE")
        return
    if ground_truth is not None and case.get("gt_as") == "sortedset-edited-afterwards":
        # the caller goes on using its own set (a leave-one-out loop): the sampler was initialised with the set as it was
        gt_arg.discard(sorted(ground_truth)[0])
        for extra in sorted(set(cspec["ann"].keys()) - set(ground_truth))[:1]:
            gt_arg.add(extra)
        ctx.count("M-GT-ALIAS")
    before = monitors.snapshot_continuum(continuum)
    for i in range(case["draws"]):
        _spy["pivots"] = []
        try:
            with rng_spy.recording(limit=20000):
                sample = sampler.sample_from_continuum
        except monitors.DrawBudgetExceeded as e:
            ctx.fail("sampling-does-not-terminate", {"message": str(e), "draw": i}, monitor="M-SHUFFLE")
            return
        except Exception as e:
            ctx.fail_exc(f"sampling-raises:{type(e).__name__}", e, monitor="M-SHUFFLE")
            return
        check_sample(ctx, case, ref, gt, sample, list(_spy["pivots"]))
    # several threads drawing from the SAME initialised sampler at once (each draw must still obey the statement)
    if case.get("threads") and not case.get("_threaded_done"):
        import sys
        import threading
        ctx.count("M-CONCURRENT-DRAWS")
        samples, errors = [], []

        def draw(k):
            try:
                for _ in range(k):
                    samples.append(sampler.sample_from_continuum)
            except Exception as e:   # noqa
                errors.append(e)
        old_sw = sys.getswitchinterval()
        sys.setswitchinterval(1e-6)
        try:
            ts = [threading.Thread(target=draw, args=(max(5, case["draws"] // 2),)) for _ in range(case["threads"])]
            [t.start() for t in ts]
            [t.join() for t in ts]
        finally:
            sys.setswitchinterval(old_sw)
        for e in errors[:1]:
            ctx.fail(f"concurrent-sampling-raises:{type(e).__name__}", {"message": str(e)[:200]}, monitor="M-SHUFFLE")
        for sample in samples:
            check_sample(ctx, dict(case, _concurrent=True), ref, gt, sample, [])
    if monitors.diff_snap(before, monitors.snapshot_continuum(continuum)):
        ctx.fail("reference-modified-by-sampling", {"diff": monitors.diff_snap(before, monitors.snapshot_continuum(continuum))},
                 monitor="M-SHUFFLE")


_rs = {}


def _state_rng():
    if "spy" not in _rs:
        _rs["spy"] = monitors.RngSpy().install()
    return _rs["spy"]


def gen_case(ctx):
    rng = ctx.rng
    n = rng.randint(2, 5)
    fam = rng.choice(["grid", "grid", "dyadic", "generic", "touching", "negative", "longoverlap", "offset", "tiny"])
    cspec = cases.gen_continuum(rng, n_annot=n, max_units=rng.randint(1, 7), family=fam, min_total=2,
                                p_none=rng.choice([0, 0, 0.5]), allow_empty=rng.random() < 0.3)
    names = sorted(cspec["ann"].keys())
    gt = None
    if n >= 3 and rng.random() < 0.4:
        for _ in range(20):
            cand = sorted(rng.sample(names, rng.randint(2, n)))
            if any(cspec["ann"][a] for a in cand):
                gt = cand
                break
    if gt is None and not any(cspec["ann"][a] for a in names):
        return None
    case = {"continuum": cspec, "ground_truth": gt, "pivot_type": rng.choice(["int_pivot", "float_pivot"]),
            "reset_bounds": rng.random() < 0.5, "np_seed": rng.randrange(2 ** 31),
            "pivot_str": rng.choice(["literal", "built", "built", "np.str_"]),
            "draws": 30 if ctx.tier == "quick" else 100}
    if rng.random() < 0.25:
        case["threads"] = rng.choice([2, 4])
    if rng.random() < 0.3 and all(len(us) >= 1 for us in cspec["ann"].values()):
        case["built_via"] = rng.choice(["copy", "merge", "plus", "merge-in-place"])
    if gt is not None and len(gt) >= 3 and rng.random() < 0.5:
        case["gt_as"] = "sortedset-edited-afterwards"
    if rng.random() < 0.3:
        # a second reference for the same sampler object: long units spread over a long continuum (other average length)
        n2 = rng.randint(2, 3)
        big = {"ann": {}, "family": "long-units"}
        for name in cases.ANNOTATOR_NAMES[:n2]:
            t = 0.0
            us = []
            for _ in range(rng.randint(1, 3)):
                t += rng.uniform(5, 40)
                d = rng.uniform(15, 30)
                us.append([cases.f32(t), cases.f32(t + d), rng.choice(cases.LABELS_SMALL)])
                t += d
            big["ann"][name] = us
        big["ann"][cases.ANNOTATOR_NAMES[0]].append([cases.f32(300.0), cases.f32(330.0), "a"])
        case["then"] = {"continuum": big, "ground_truth": None}
    return case


def run(ctx):
    # deterministic first block: a reference obtained by copy / merge, a ground truth handed over as a SortedSet that the
    # caller edits afterwards
    for k0, via in enumerate(["copy", "merge", "plus", "merge-in-place"]):
        cs0 = cases.gen_continuum(ctx.rng, n_annot=4, sizes=[4, 3, 4, 3], family="grid", labels=cases.LABELS_SMALL, names=cases.ANNOTATOR_NAMES[:4])
        cs0.pop("readd", None)
        case = {"continuum": cs0, "ground_truth": cases.ANNOTATOR_NAMES[1:4] if k0 % 2 else None, "pivot_type": ["float_pivot", "int_pivot"][k0 % 2],
                "reset_bounds": k0 >= 2, "np_seed": 70 + k0, "pivot_str": "literal", "draws": 30, "built_via": via,
                "gt_as": "sortedset-edited-afterwards"}
        ctx.begin_case(case)
        ctx.observe("family", "deterministic-first-block")
        check_case(ctx, dict(case))
    for _ in range(ctx.scale(110, 3000)):
        if ctx.out_of_time():
            break
        case = gen_case(ctx)
        if case is None:
            continue
        ctx.begin_case(case, nontrivial=cases.spec_num_units(case["continuum"]) >= 2)
        ctx.observe("pivot_type", case["pivot_type"])
        ctx.observe("ground_truth_size", len(case["ground_truth"] or case["continuum"]["ann"]))
        ctx.observe("family", case["continuum"]["family"])
        ctx.observe("reset_bounds", case["reset_bounds"])
        check_case(ctx, {k: v for k, v in case.items()})
