"""C17 - alignment validity checks accept exactly partitions (Alignment) and covers (SoftAlignment)."""
import copy
import json
import os

from .. import cases

TITLE = "Alignment validity checks accept exactly partitions and covers"
DECIDING = ["M-CHECK", "M-CHECK-SOFT", "M-CTOR", "M-ORDER", "M-CHECK-AFTER-EDIT", "M-CHECK-SEQUENCE", "M-CHECK-CONCURRENT"]
LEVEL = "exploration"
RULE = ("seeded random continua up to 4x5 units (incl. identical units across annotators, unlabelled units) x candidate "
        "alignments: random valid partitions and near-valid mutants (unit dropped, whole unitary alignment dropped, unit "
        "duplicated into another unitary alignment, unitary alignment duplicated, unit moved under another annotator, "
        "foreign unit added once, all-empty unitary alignment added, one annotator named in two slots of a unitary alignment, "
        "the same unit twice in one unitary alignment, slots permuted, unitary alignments permuted, up to "
        "3 mutations combined), the alignment without any unitary alignment, and check / same-size edit of the continuum object (remove + add) / check "
        "again histories, one alignment object of 2 400 - 4 000 unitary alignments checked by 4 user threads at once, sequences of checks on one alignment object (against its own continuum, another one, without argument), and continua / alignments built and pickled in another process under another hash seed, checked here against objects built "
        "here; thorough tier also enumerates ALL partitions of tiny continua x every single mutation. "
        "Each candidate is judged by Alignment.check(), SoftAlignment.check(), both constructors with "
        "check_validity=True, check(continuum) with the continuum passed explicitly, before and after shuffling; the "
        "reference predicate counts each (annotator, unit) of the continuum among the real slots. non-trivial = "
        "alignment over a continuum with >= 2 units; distinct by SHA-1 of (continuum, alignment)")
ASSUMPTIONS = [
    "expected: Alignment.check succeeds iff every count == 1, SoftAlignment.check succeeds iff every count >= 1; failure "
    "must be SetPartitionError, any other exception is neither success nor the promised error",
    "alignments in which a tuple foreign to the continuum occurs twice are not generated (the statement's two "
    "sentences disagree about them); unitary alignments of unequal length are not generated (ValueError, outside the "
    "statement)",
]


def plan(tier, seed):
    n = 4 if tier == "quick" else 16
    return {"shards": [{"env": {}, "params": {"time_budget": 60 if tier == "quick" else 600, "current_every": 20}}
                       for _ in range(n)], "timeout": 400 if tier == "quick" else 2400}


def counts_of(cspec, aspec):
    """Occurrences of each continuum tuple among the real slots (slot value: index, None or explicit [s,e,label])."""
    cnt = {}
    truth = {(a, tuple(u)) for a, us in cspec["ann"].items() for u in us}
    for t in truth:
        cnt[t] = 0
    for tup in aspec:
        for a, v in _slots(tup):
            if v is None:
                continue
            u = tuple(v) if isinstance(v, (list, tuple)) else tuple(cspec["ann"][a][v])
            if (a, u) in cnt:
                cnt[(a, u)] += 1
    return cnt


def _slots(tup):
    return [tuple(x) for x in tup] if isinstance(tup, list) else list(tup.items())


def foreign_duplicates(cspec, aspec):
    truth = {(a, tuple(u)) for a, us in cspec["ann"].items() for u in us}
    seen = {}
    for tup in aspec:
        for a, v in _slots(tup):
            if v is None:
                continue
            u = tuple(v) if isinstance(v, (list, tuple)) else tuple(cspec["ann"][a][v])
            if (a, u) not in truth:
                seen[(a, u)] = seen.get((a, u), 0) + 1
    return any(c > 1 for c in seen.values())


MUTATIONS = ["drop-unit", "drop-unitary", "dup-unit", "dup-unitary", "move-annotator", "foreign-once", "all-empty",
             "none", "same-annotator-twice", "same-unit-twice-in-one-tuple"]


def mutate(rng, cspec, aspec, kind):
    a2 = copy.deepcopy(aspec)
    names = list(cspec["ann"].keys())
    real = [(k, a) for k, tup in enumerate(a2) if isinstance(tup, dict) for a, v in tup.items() if v is not None]
    if kind == "none" or not a2:
        return a2
    if kind == "drop-unit" and real:
        k, a = rng.choice(real)
        a2[k][a] = None
        if all(v is None for v in a2[k].values()) and len(a2) > 1 and rng.random() < 0.5:
            del a2[k]
    elif kind == "drop-unitary" and len(a2) > 1:
        del a2[rng.randrange(len(a2))]
    elif kind == "dup-unit" and real:
        k, a = rng.choice(real)
        targets = [j for j, tup in enumerate(a2) if j != k and isinstance(tup, dict) and tup[a] is None]
        if targets:
            a2[rng.choice(targets)][a] = a2[k][a]
        else:
            new = {n: None for n in names}
            new[a] = a2[k][a]
            a2.append(new)
    elif kind == "dup-unitary":
        a2.append(copy.deepcopy(rng.choice(a2)))
    elif kind == "move-annotator" and real and len(names) > 1:
        k, a = rng.choice(real)
        v = a2[k][a]
        u = list(v) if isinstance(v, (list, tuple)) else list(cspec["ann"][a][v])
        b = rng.choice([n for n in names if n != a])
        if a2[k][b] is None:
            a2[k][a] = None
            a2[k][b] = u          # explicit unit under another annotator (foreign unless b has the same unit)
    elif kind == "foreign-once":
        a = rng.choice(names)
        new = {n: None for n in names}
        new[a] = [100.0 + rng.randrange(1000), 2000.0, "zz"]
        a2.append(new)
    elif kind == "all-empty":
        a2.append({n: None for n in names})
    elif kind in ("same-annotator-twice", "same-unit-twice-in-one-tuple") and len(a2) >= 1:
        # a unitary alignment that names one annotator in two slots (list form): either two of its units (every unit still
        # present exactly once: a valid partition by count) or the same unit twice (a duplicate)
        dict_idx = [k for k, tup in enumerate(a2) if isinstance(tup, dict)]
        for k in dict_idx:
            tup = a2[k]
            donors = [a for a, v in tup.items() if v is not None]
            empties = [a for a, v in tup.items() if v is None]
            if donors and empties:
                a = rng.choice(donors)
                e = rng.choice(empties)
                if kind == "same-unit-twice-in-one-tuple":
                    extra = tup[a]
                else:
                    # take another unit of `a` away from another unitary alignment
                    others = [(j, t2) for j, t2 in enumerate(a2) if j != k and isinstance(t2, dict) and t2.get(a) is not None]
                    if not others:
                        continue
                    j, t2 = rng.choice(others)
                    extra = t2[a]
                    t2[a] = None
                slots = [[x, v] for x, v in tup.items() if x != e] + [[a, extra]]
                a2[k] = slots
                break
        a2 = [t for t in a2 if not (isinstance(t, dict) and all(v is None for v in t.values()) and len(a2) > 1)] or a2
    return a2


def judge(ctx, cspec, aspec, tag):
    from pygamma_agreement.alignment import Alignment, SoftAlignment, SetPartitionError
    if foreign_duplicates(cspec, aspec):
        return
    cnt = counts_of(cspec, aspec)
    exp_part = all(c == 1 for c in cnt.values())
    exp_cover = all(c >= 1 for c in cnt.values())
    continuum = cases.build_continuum(cspec)
    names = sorted(cspec["ann"].keys())
    ctx.observe("expected", f"partition={exp_part} cover={exp_cover}")

    def outcome(fn):
        try:
            fn()
            return "ok"
        except SetPartitionError:
            return "SetPartitionError"
        except Exception as e:
            return "other:" + type(e).__name__

    def variants():
        yield "as-built", aspec, None
        sh = list(aspec)
        ctx.rng.shuffle(sh)
        order = list(names)
        ctx.rng.shuffle(order)
        yield "shuffled", sh, order

    for vname, asp, order in variants():
        results = {}
        al = cases.build_alignment(cspec, asp, continuum=continuum, slot_order=order)
        so = cases.build_alignment(cspec, asp, continuum=continuum, soft=True, slot_order=order)
        results["Alignment.check()"] = (outcome(al.check), exp_part)
        results["SoftAlignment.check()"] = (outcome(so.check), exp_cover)
        al2 = cases.build_alignment(cspec, asp, continuum=None, slot_order=order)
        so2 = cases.build_alignment(cspec, asp, continuum=None, soft=True, slot_order=order)
        results["Alignment.check(continuum)"] = (outcome(lambda: al2.check(continuum)), exp_part)
        results["SoftAlignment.check(continuum)"] = (outcome(lambda: so2.check(continuum)), exp_cover)
        # bound at construction to ANOTHER continuum, checked against this one explicitly
        other = cases.build_continuum({"ann": {a: [[900.0, 901.0, "other"]] for a in names}})
        al3 = cases.build_alignment(cspec, asp, continuum=other, slot_order=order)
        so3 = cases.build_alignment(cspec, asp, continuum=other, soft=True, slot_order=order)
        results["Alignment(bound elsewhere).check(continuum)"] = (outcome(lambda: al3.check(continuum)), exp_part)
        results["SoftAlignment(bound elsewhere).check(continuum)"] = (outcome(lambda: so3.check(continuum)), exp_cover)
        if len(names) >= 2 and (exp_part or exp_cover):
            # checked against the continuum of only SOME of its annotators (the other slots belong to annotators that
            # continuum does not know): a partition / cover of the whole is one of the part
            keep = sorted(ctx.rng.sample(names, ctx.rng.randint(1, len(names) - 1)))
            if any(cspec["ann"][a] for a in keep):
                part = cases.build_continuum({"ann": {a: cspec["ann"][a] for a in keep}})
                if exp_part:
                    results["Alignment.check(continuum of some annotators)"] = (outcome(lambda: al2.check(part)), True)
                if exp_cover:
                    results["SoftAlignment.check(continuum of some annotators)"] = (outcome(lambda: so2.check(part)), True)
        results["Alignment(check_validity=True)"] = (
            outcome(lambda: cases.build_alignment(cspec, asp, continuum=continuum, slot_order=order, check=True)), exp_part)
        results["SoftAlignment(check_validity=True)"] = (
            outcome(lambda: cases.build_alignment(cspec, asp, continuum=continuum, soft=True, slot_order=order, check=True)),
            exp_cover)
        for what, (got, exp) in results.items():
            mon = "M-CTOR" if "check_validity" in what else ("M-CHECK-SOFT" if what.startswith("Soft") else "M-CHECK")
            ctx.count(mon)
            if vname == "shuffled":
                ctx.count("M-ORDER")
            want = "ok" if exp else "SetPartitionError"
            if got != want:
                kind = "soft" if what.startswith("Soft") else "partition"
                if got.startswith("other:"):
                    key = f"{kind}:{got.replace('other:', 'raises-')}-instead-of-{'success' if exp else 'SetPartitionError'}"
                elif got == "ok":
                    key = f"{kind}:invalid-alignment-accepted"
                else:
                    key = f"{kind}:valid-alignment-rejected"
                ctx.fail(key, {"call": what, "variant": vname, "got": got, "expected": want, "mutation": tag,
                               "counts": sorted(set(cnt.values()))}, monitor=mon)


def check_edit_case(ctx, case):
    """ONE continuum object: a valid alignment is checked against it, the continuum is edited without changing any
    annotator's number of units (a unit relabelled or moved through remove + add), and both the old alignment (now holding
    a vanished unit and lacking the new one) and an alignment rebuilt for the new content are checked against the SAME object."""
    from pygamma_agreement.alignment import SetPartitionError
    from pyannote.core import Segment
    cspec = case["continuum"]
    continuum = cases.build_continuum(cspec)
    names = sorted(cspec["ann"].keys())

    def outcome(fn):
        try:
            fn()
            return "ok"
        except SetPartitionError:
            return "SetPartitionError"
        except Exception as e:
            return "other:" + type(e).__name__
    cur = {a: [list(u) for u in us] for a, us in cspec["ann"].items()}
    for step, (a, k, new_unit) in enumerate([(None, None, None)] + [tuple(e) for e in case["edits"]]):
        old_spec = {"ann": {x: [list(u) for u in us] for x, us in cur.items()}}
        if a is not None:
            victim = cur[a][k]
            unit = [u for u in continuum[a] if (u.segment.start, u.segment.end, u.annotation) == tuple(victim)][0]
            continuum.remove(a, unit)
            continuum.add(a, Segment(new_unit[0], new_unit[1]), new_unit[2])
            cur[a][k] = list(new_unit)
        now_spec = {"ann": {x: sorted(us, key=cases.unit_key) for x, us in cur.items()}}
        for soft in (False, True):
            mon = "M-CHECK-SOFT" if soft else "M-CHECK"
            fresh = cases.build_alignment(now_spec, [{x: i for x in [n]} | {y: None for y in names if y != n}
                                                     for n in names for i in range(len(now_spec["ann"][n]))],
                                          continuum=None, soft=soft)
            ctx.count(mon)
            ctx.count("M-CHECK-AFTER-EDIT")
            got = outcome(lambda: fresh.check(continuum))
            if got != "ok":
                ctx.fail(("soft" if soft else "partition") + ":valid-alignment-rejected-after-an-edit-of-the-continuum",
                         {"got": got, "step": step, "edit": [a, k, new_unit]}, monitor=mon)
            if a is not None:
                stale = cases.build_alignment(old_spec, [{x: i for x in [n]} | {y: None for y in names if y != n}
                                                         for n in names for i in range(len(old_spec["ann"][n]))],
                                              continuum=None, soft=soft)
                ctx.count(mon)
                got = outcome(lambda: stale.check(continuum))
                if got != "SetPartitionError":
                    ctx.fail(("soft" if soft else "partition") + ":alignment-of-the-former-content-accepted-after-an-edit",
                             {"got": got, "step": step, "edit": [a, k, new_unit]}, monitor=mon)


def check_cross_process(ctx, case):
    """Continua and alignments built and pickled in another process (another hash seed), unpickled here and checked against
    each other and against continua built here: the outcome is the one the counts prescribe."""
    import pickle
    import subprocess
    import sys
    from pygamma_agreement.alignment import SetPartitionError
    d = os.path.join(ctx.outdir, "pickles")
    os.makedirs(d, exist_ok=True)
    src, dst = os.path.join(d, f"in-{ctx.evaluations}.json"), os.path.join(d, f"out-{ctx.evaluations}.pkl")
    with open(src, "w") as f:
        json.dump(case["items"], f)
    env = dict(os.environ, PYTHONHASHSEED=str(case["hash_seed"]))
    r = subprocess.run([sys.executable, "-m", "vframework.pickle_maker", src, dst], env=env, capture_output=True, text=True, timeout=600,
                       cwd=os.path.dirname(os.path.dirname(os.path.dirname(os.path.abspath(__file__)))))
    if r.returncode != 0:
        ctx.inconclusive_because("the pickling helper process failed: " + r.stderr[-300:])
        return
    with open(dst, "rb") as f:
        data = pickle.load(f)
    ctx.observe("pickled_under_hash_seed", f"{data['hash_seed']} (probe {data['probe']}) / here {os.environ.get('PYTHONHASHSEED')} (probe {hash('probe-string') & 0xffff})")

    def outcome(fn):
        try:
            fn()
            return "ok"
        except SetPartitionError:
            return "SetPartitionError"
        except Exception as e:
            return "other:" + type(e).__name__
    for it, (c_far, al_far, so_far) in zip(case["items"], data["items"]):
        cspec, aspec = it["continuum"], it["alignment"]
        if foreign_duplicates(cspec, aspec):
            continue
        cnt = counts_of(cspec, aspec)
        exp_part, exp_cover = all(c == 1 for c in cnt.values()), all(c >= 1 for c in cnt.values())
        c_here = cases.build_continuum(cspec)
        al_here = cases.build_alignment(cspec, aspec, continuum=None)
        so_here = cases.build_alignment(cspec, aspec, continuum=None, soft=True)
        for what, fn, exp, mon in (
                ("Alignment(unpickled).check(continuum built here)", lambda: al_far.check(c_here), exp_part, "M-CHECK"),
                ("Alignment(built here).check(continuum unpickled)", lambda: al_here.check(c_far), exp_part, "M-CHECK"),
                ("Alignment(unpickled).check(continuum unpickled)", lambda: al_far.check(c_far), exp_part, "M-CHECK"),
                ("SoftAlignment(unpickled).check(continuum built here)", lambda: so_far.check(c_here), exp_cover, "M-CHECK-SOFT"),
                ("SoftAlignment(built here).check(continuum unpickled)", lambda: so_here.check(c_far), exp_cover, "M-CHECK-SOFT")):
            ctx.count(mon)
            ctx.count("M-CHECK-CROSS-PROCESS")
            got, want = outcome(fn), ("ok" if exp else "SetPartitionError")
            if got != want:
                kind = "soft" if what.startswith("Soft") else "partition"
                key = (f"{kind}:cross-process:" + ("invalid-alignment-accepted" if got == "ok" else
                                                   ("valid-alignment-rejected" if got == "SetPartitionError" else got.replace("other:", "raises-"))))
                ctx.fail(key, {"call": what, "got": got, "expected": want, "pickled_under_hash_seed": data["hash_seed"]}, monitor=mon)
    for p_ in (src, dst):
        if os.path.exists(p_):
            os.unlink(p_)


def check_sequence_case(ctx, case):
    """ONE alignment object (bound to its continuum C at construction) goes through a sequence of checks against C, against another
    continuum D, and without argument: each outcome is the one the counts prescribe for the continuum that call is about."""
    from pygamma_agreement.alignment import SetPartitionError
    cspec, aspec = case["continuum"], case["alignment"]
    C = cases.build_continuum(cspec)
    D = cases.build_continuum(case["other"])

    def outcome(fn):
        try:
            fn()
            return "ok"
        except SetPartitionError:
            return "SetPartitionError"
        except Exception as e:
            return "other:" + type(e).__name__
    cnt = counts_of(cspec, aspec)
    exp_c = {False: all(c == 1 for c in cnt.values()), True: all(c >= 1 for c in cnt.values())}
    exp_d = {False: False, True: False}        # D shares no unit with C: every unit of D is missing
    for soft in (False, True):
        al = cases.build_alignment(cspec, aspec, continuum=C, soft=soft)
        mon = "M-CHECK-SOFT" if soft else "M-CHECK"
        for step, what in enumerate(case["sequence"]):
            got = outcome({"bound": lambda: al.check(), "C": lambda: al.check(C), "D": lambda: al.check(D)}[what])
            want = "ok" if (exp_d if what == "D" else exp_c)[soft] else "SetPartitionError"
            ctx.count(mon)
            ctx.count("M-CHECK-SEQUENCE")
            if got != want:
                ctx.fail(("soft" if soft else "partition") + ":sequence-of-checks-on-one-alignment-object:" +
                         ("accepted" if got == "ok" else ("rejected" if got == "SetPartitionError" else got.replace("other:", "raises-"))),
                         {"step": step, "call": {"bound": "check()", "C": "check(C)", "D": "check(D)"}[what], "sequence": case["sequence"], "got": got, "expected": want},
                         monitor=mon)
                break


def check_concurrent_case(ctx, case):
    """ONE (large) alignment object checked by several user threads at once, against the continuum it partitions and against
    an equal continuum built separately: every check gives the verdict the same call gives alone."""
    from pygamma_agreement.alignment import SetPartitionError
    from . import _align_common as ac
    n_units = case["units_per_annotator"]
    names = cases.ANNOTATOR_NAMES[:case["annotators"]]
    cspec = {"ann": {a: [[float(3 * i + k), float(3 * i + k + 2), "x"] for i in range(n_units)] for k, a in enumerate(names)}}
    # singletons in a scrambled order (so that an implementation that re-orders its unitary alignments has work to do)
    asp = [{a: (i if a == b else None) for a in names} for b in names for i in range(n_units)]
    import random as _r
    _r.Random(case["order_seed"]).shuffle(asp)
    if case.get("drop"):
        asp = asp[:-1]
    C, C2 = cases.build_continuum(cspec), cases.build_continuum(cspec)
    expected = "SetPartitionError" if case.get("drop") else "ok"
    for soft in (False, True):
        al = cases.build_alignment(cspec, asp, continuum=C, soft=soft)

        def work(k):
            out = []
            for r in range(case["repeat"]):
                try:
                    al.check(C2 if (k + r) % 2 else None)
                    out.append("ok")
                except SetPartitionError:
                    out.append("SetPartitionError")
                except Exception as e:
                    out.append("other:" + type(e).__name__)
            return out
        for k, (res, exc) in enumerate(ac.concurrent_calls([(lambda k=k: work(k)) for k in range(case["threads"])])):
            mon = "M-CHECK-SOFT" if soft else "M-CHECK"
            ctx.count(mon)
            ctx.count("M-CHECK-CONCURRENT")
            if exc is not None:
                ctx.fail_exc(f"concurrent-checks:harness-thread-raises:{type(exc).__name__}", exc, monitor=mon)
            elif any(v != expected for v in res):
                bad = [v for v in res if v != expected]
                ctx.fail(("soft" if soft else "partition") + ":concurrent-checks-of-one-alignment-object:" +
                         ("accepted" if bad[0] == "ok" else ("rejected" if bad[0] == "SetPartitionError" else bad[0].replace("other:", "raises-"))),
                         {"thread": k, "wrong_verdicts": len(bad), "of": len(res), "expected": expected, "unitary_alignments": len(asp)}, monitor=mon)


def check_case(ctx, case):
    if "threads" in case:
        return check_concurrent_case(ctx, case)
    if "sequence" in case:
        return check_sequence_case(ctx, case)
    if "items" in case:
        return check_cross_process(ctx, case)
    if "edits" in case:
        return check_edit_case(ctx, case)
    judge(ctx, case["continuum"], case["alignment"], case.get("mutations"))


def run(ctx):
    rng = ctx.rng
    for i in range(ctx.scale(220, 12000)):
        if ctx.out_of_time():
            break
        n = rng.randint(2, 4)
        cspec = cases.gen_continuum(rng, n_annot=n, max_units=rng.randint(1, 5), min_total=1,
                                    p_none=rng.choice([0, 0, 0.3]),
                                    family=rng.choice(["grid", "identical", "identical", "touching", "dyadic"]))
        cspec["ann"] = {a: [list(u) for u in us] for a, us in cspec["ann"].items()}
        base = cases.random_partition_alignment(rng, cspec, p_join=rng.choice([0.3, 0.7]))
        muts = [rng.choice(MUTATIONS) for _ in range(rng.choice([0, 1, 1, 1, 2, 3]))]
        asp = base
        for m in muts:
            asp = mutate(rng, cspec, asp, m)
        case = {"continuum": cspec, "alignment": asp, "mutations": muts}
        ctx.begin_case(case, nontrivial=cases.spec_num_units(cspec) >= 2)
        ctx.observe("mutations", "+".join(muts) or "valid")
        check_case(ctx, case)
    # units whose start and end only differ beyond the 6th significant digit (sample indices hours into a file, ms stamps
    # past 1000 s): two distinct units of one annotator with the same label must stay two units
    for _ in range(ctx.scale(20, 300)):
        n = rng.randint(2, 3)
        base = rng.choice([476280000.0, 3600.120, 123456700.0, 99999.95])
        step = {476280000.0: 128.0, 3600.120: 0.001, 123456700.0: 1.0, 99999.95: 0.01}[base]
        cspec = {"ann": {}, "family": "close-large-coordinates"}
        for a in cases.ANNOTATOR_NAMES[:n]:
            k = rng.randint(1, 3)
            cspec["ann"][a] = [[base + i * step, base + i * step + 50 * step + i * step, "lab"] for i in range(k)]
        base_al = cases.random_partition_alignment(rng, cspec, p_join=0.5)
        muts = [rng.choice(["none", "drop-unit", "dup-unit", "none"])]
        asp = mutate(rng, cspec, base_al, muts[0])
        case = {"continuum": cspec, "alignment": asp, "mutations": muts}
        ctx.begin_case(case)
        ctx.observe("mutations", "close-large-coordinates+" + muts[0])
        check_case(ctx, case)
    # one large alignment object checked by several user threads at once
    for k0 in range(ctx.scale(2, 12)):
        case = {"threads": 4, "annotators": 2, "units_per_annotator": rng.choice([1200, 2000]), "repeat": 6, "order_seed": rng.randrange(10 ** 6), "drop": k0 % 2 == 1}
        ctx.begin_case(case)
        ctx.observe("mutations", "concurrent-checks-of-one-alignment-object")
        check_case(ctx, case)
    # one alignment object checked several times in a row against its own continuum, another one, its own again
    for _ in range(ctx.scale(20, 400)):
        n = rng.randint(2, 3)
        cspec = cases.gen_continuum(rng, n_annot=n, max_units=3, min_total=2, allow_empty=False, family=rng.choice(["grid", "touching", "dyadic"]))
        cspec["ann"] = {a: [list(u) for u in us] for a, us in cspec["ann"].items()}
        other = {"ann": {a: [[u[0] + 5000.0, u[1] + 5000.0, u[2]] for u in us] for a, us in cspec["ann"].items()}}
        asp = cases.random_partition_alignment(rng, cspec, p_join=0.5)
        if rng.random() < 0.3:
            asp = mutate(rng, cspec, asp, rng.choice(["drop-unit", "dup-unit"]))
        if foreign_duplicates(cspec, asp):
            continue
        case = {"continuum": cspec, "other": other, "alignment": asp, "sequence": [rng.choice(["bound", "C", "D"]) for _ in range(rng.randint(3, 6))]}
        ctx.begin_case(case)
        ctx.observe("mutations", "sequence-of-checks-on-one-alignment-object")
        check_case(ctx, case)
    # objects that travelled between processes: built and pickled under another hash seed, checked here
    if ctx.shard % 2 == 0 or ctx.tier == "thorough":
        items = []
        for _ in range(ctx.scale(12, 120)):
            n = rng.randint(2, 3)
            cspec = cases.gen_continuum(rng, n_annot=n, max_units=4, min_total=2, p_none=rng.choice([0, 0, 0.3]), family=rng.choice(["grid", "identical", "touching"]))
            cspec["ann"] = {a: [list(u) for u in us] for a, us in cspec["ann"].items()}
            asp = cases.random_partition_alignment(rng, cspec, p_join=0.5)
            for m in [rng.choice(["none", "none", "drop-unit", "dup-unit", "dup-unitary"])]:
                asp = mutate(rng, cspec, asp, m)
            items.append({"continuum": cspec, "alignment": asp})
        case = {"items": items, "hash_seed": rng.choice([101, 202, 31337])}
        ctx.begin_case(case)
        ctx.observe("mutations", "cross-process (pickled under another hash seed)")
        check_case(ctx, case)
    # an alignment without any unitary alignment: a partition of nothing - refused (set-partition error) as soon as the
    # continuum holds a unit
    for n in (2, 3):
        for k in (0, 1, 2):
            cspec = {"ann": {a: [[float(i), float(i) + 1.0, "x"] for i in range(k)] for a in cases.ANNOTATOR_NAMES[:n]}, "family": "empty-alignment"}
            case = {"continuum": cspec, "alignment": [], "mutations": ["empty-alignment"]}
            ctx.begin_case(case, nontrivial=k > 0)
            ctx.observe("mutations", "empty-alignment")
            check_case(ctx, case)
    # check, edit the continuum object without changing unit counts, check again (the same object)
    for _ in range(ctx.scale(25, 600)):
        n = rng.randint(2, 3)
        cspec = cases.gen_continuum(rng, n_annot=n, max_units=3, min_total=2, allow_empty=False, family=rng.choice(["grid", "touching", "dyadic"]))
        cspec.pop("readd", None)
        cspec["ann"] = {a: [list(u) for u in us] for a, us in cspec["ann"].items()}
        edits = []
        cur = {a: [list(u) for u in us] for a, us in cspec["ann"].items()}
        for _e in range(rng.randint(1, 3)):
            a = rng.choice(sorted(cur))
            k = rng.randrange(len(cur[a]))
            u = cur[a][k]
            new = [u[0], u[1], rng.choice([l for l in ["a", "b", "c", "zz"] if l != u[2]])] if rng.random() < 0.6 else [u[0] + 1000.0, u[1] + 1000.0, u[2]]
            if any(tuple(new) == tuple(x) for x in cur[a]):
                continue
            edits.append([a, k, new])
            cur[a][k] = new
        case = {"continuum": cspec, "edits": edits}
        ctx.begin_case(case)
        ctx.observe("mutations", "check-edit-check-on-one-continuum-object")
        check_case(ctx, case)
    # continua in which annotators are declared but nobody has a unit (a falsy Continuum): the only candidates are
    # all-empty unitary alignments, which must be accepted - also when the continuum is passed to check() explicitly
    for n in (2, 3):
        for copies in (1, 2):
            cspec = {"ann": {a: [] for a in cases.ANNOTATOR_NAMES[:n]}, "family": "no-units"}
            asp = [{a: None for a in cases.ANNOTATOR_NAMES[:n]} for _ in range(copies)]
            case = {"continuum": cspec, "alignment": asp, "mutations": ["no-units"]}
            ctx.begin_case(case, nontrivial=False)
            ctx.observe("mutations", "continuum-without-units")
            check_case(ctx, case)
    if ctx.tier == "thorough":
        # every partition of tiny continua x every single mutation (each mutation kind, a few random placements)
        tiny = [
            {"ann": {"a": [[0, 1, "x"], [2, 3, "y"]], "b": [[0, 1, "x"]]}},
            {"ann": {"a": [[0, 1, "x"], [0, 2, "x"]], "b": [[0, 1, "x"], [5, 6, None]]}},
            {"ann": {"a": [[0, 1, "x"]], "b": [[0, 1, "x"], [1, 2, "x"]], "c": [[0, 1, "x"]]}},
            {"ann": {"a": [[0, 1, "x"], [1, 2, "y"]], "b": [[0, 1, "x"], [1, 2, "y"]], "c": [[0, 1, "y"], [3, 4, "x"]]}},
            {"ann": {"a": [[0, 1, "x"], [1, 2, "y"], [2, 3, "x"]], "b": [[0, 1, "x"], [1, 2, "y"], [4, 5, "x"]]}},
        ]
        k = 0
        for cspec in tiny:
            for base in cases.all_set_partitions_alignments(cspec):
                for m in MUTATIONS:
                    for rep in range(3 if m != "none" else 1):
                        k += 1
                        if k % ctx.nshards != ctx.shard:
                            continue
                        asp = mutate(rng, cspec, base, m)
                        case = {"continuum": cspec, "alignment": asp, "mutations": [m]}
                        ctx.begin_case(case)
                        ctx.observe("exhaustive_partitions_subfamily", m)
                        check_case(ctx, case)
        ctx.note("exhaustive_subfamily", "all partitions of 5 tiny continua x 8 mutation kinds")
