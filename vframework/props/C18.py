"""C18 - file import and export are faithful (CSV round trip; CSV, RTTM, TextGrid, ELAN readers)."""
import os
import random
import shutil

from .. import cases

TITLE = "File import and export are faithful"
DECIDING = ["M-ROUNDTRIP-CONCURRENT", "M-ROUNDTRIP", "M-CSV-READ", "M-RTTM", "M-TEXTGRID", "M-ELAN"]
LEVEL = "exploration"
RULE = ("generated files with an independently known content: (a) CSV round trip from_csv(to_csv(c)) == c with equal "
        "categories, delimiters , ; tab |, annotator / label text with spaces, quotes, delimiter characters, unicode, "
        "embedded \\n \\r \\r\\n, multi-line fields with empty / blank inner lines, leading / trailing blanks, empty label, "
        "arbitrary finite doubles as times (Python floats, numpy scalars, ints); (b) CSV "
        "files written by the harness (csv module and hand-quoted) incl. zero-length and reversed rows: dropped with "
        "discard_invalid_rows=True, ValueError otherwise; (c) RTTM lines; (d) TextGrid files written with the textgrid "
        "package (several interval tiers, two tiers sharing a name, empty marks, a point tier, tier selection, tier-as-label, the same file imported in both "
        "label modes in either order); (f) four user threads doing CSV round trips at once, each with its own delimiter; (e) "
        "ELAN files written with pympi (alignable tiers, millisecond integers, tier selection, tier-as-label). Expected "
        "unit sets are compared as sets of (annotator, start, end, label). non-trivial = file with >= 2 units; distinct "
        "by SHA-1 of the file content description")
ASSUMPTIONS = [
    "round trip is claimed for continua whose units are all labelled and whose annotators all have a unit (a CSV row is "
    "the only carrier of an annotator); field text excludes NUL and lone surrogates",
    "TextGrid times are written with <= 3 decimals: the third-party textgrid package rounds to 5 decimals on read",
    "RTTM times use <= 6 decimals below 1e6 (pandas' fast float parser is exact there); end = start + duration in "
    "double arithmetic; speaker and file fields contain no whitespace",
    "ELAN: alignable tiers with non-empty values only (reference tiers and empty values are outside the statement)",
    "TextGrid tiers of one file have distinct names",
]

HOSTILE = ["plain", "with space", " lead", "trail ", "comma,inside", "semi;colon", "pipe|char", "tab\tchar", 'dq"uote',
           "sq'uote", '""', "new\nline", "carriage\rreturn", "crlf\r\nboth", "ünï-cødé", "日本語", "emoji😀", "", "  ",
           "1.5", "-3", "None", "nan", "#hash", "back\\slash", "x" * 300, '"', ",", "a,b\"c\nd"]
# multi-line fields whose inner lines are empty or blank (a CSV field can hold them; a reader that filters "blank lines"
# of the file must not look inside quoted fields)
MULTILINE = ["para 1\n\npara 2", "title\r\n\r\nbody", "x\n   \ny", "text\n\n", "\n\nlead", "a\n\t\nb", "\n"]
HOSTILE += MULTILINE


def plan(tier, seed):
    n = 3 if tier == "quick" else 12
    return {"shards": [{"env": {}, "params": {"time_budget": 60 if tier == "quick" else 500}} for _ in range(n)],
            "timeout": 400 if tier == "quick" else 2400}


def rand_time(rng):
    r = rng.random()
    if r < 0.3:
        return float(rng.randrange(-50, 500))
    if r < 0.6:
        return rng.uniform(-100, 1000)
    if r < 0.8:
        return rng.uniform(0, 1) * 10 ** rng.randint(-3, 9)
    # (incl. values that repr() writes in exponent notation)
    return rng.choice([0.1, 1 / 3, 2 / 3, 1e-5, 123456.789, 0.30000000000000004, 5e-05, -3.5e-05, 7.25e-06, 1.7e+18, 2.5e+16, 1e+22])


def units_set(c):
    return {(a, u.segment.start, u.segment.end, u.annotation) for a, u in c}


def workdir(ctx):
    d = os.path.join(ctx.outdir, "files")
    os.makedirs(d, exist_ok=True)
    return d


# ------------------------------------------------------------------------------------------------ (a) round trip
def check_roundtrip(ctx, case):
    from pygamma_agreement import Continuum
    from pyannote.core import Segment
    ctx.count("M-ROUNDTRIP")
    c = Continuum()
    tt = case.get("time_type", "float")
    for a, s, e, lab in case["units"]:
        if tt == "np.float64":          # times taken from an array / a cumulative sum: same values, numpy scalars
            import numpy as np
            s, e = np.float64(s), np.float64(e)
        elif tt == "int" and float(s).is_integer() and float(e).is_integer():
            s, e = int(s), int(e)
        c.add(a, Segment(s, e), lab)
    path = os.path.join(workdir(ctx), f"rt-{ctx.evaluations}.csv")
    delim = case["delimiter"]
    try:
        c.to_csv(path, delimiter=delim)
        back = Continuum.from_csv(path, delimiter=delim)
    except Exception as e:
        ctx.fail_exc(f"roundtrip-raises:{type(e).__name__}", e, monitor="M-ROUNDTRIP")
        return
    finally:
        if os.path.exists(path):
            os.unlink(path)
    a, b = units_set(c), units_set(back)
    if not (back == c) or a != b:
        lost, extra = sorted(a - b, key=repr)[:3], sorted(b - a, key=repr)[:3]
        what = "text" if {(x[1], x[2]) for x in a} == {(x[1], x[2]) for x in b} else "times-or-rows"
        ctx.fail(f"roundtrip-differs:{what}", {"lost": lost, "unexpected": extra, "delimiter": delim}, monitor="M-ROUNDTRIP")
        return
    if list(back.categories) != list(c.categories):
        ctx.fail("roundtrip-categories-differ", {"before": list(c.categories), "after": list(back.categories)}, monitor="M-ROUNDTRIP")
    if list(back.annotators) != list(c.annotators):
        ctx.fail("roundtrip-annotators-differ", {"before": list(c.annotators), "after": list(back.annotators)}, monitor="M-ROUNDTRIP")


def gen_roundtrip(rng):
    n_ann = rng.randint(1, 4)
    anns = rng.sample(HOSTILE[:19] + MULTILINE + ["alex", "bob"], n_ann)
    anns = [a for a in anns if a != ""] or ["solo"]
    units = set()
    for a in anns:
        for _ in range(rng.randint(1, 5)):
            s = rand_time(rng)
            d = rng.choice([1.0, rng.uniform(1e-4, 50), 1e-5 * (1 + abs(s))])
            if (s + d) - s <= 2e-6:
                d = 1.0
            if (s + d) - s <= 2e-6:
                d = abs(s) * 1e-3       # a time so large that adding 1 does not change it
            units.add((a, s, s + d, rng.choice(HOSTILE)))
    return {"kind": "roundtrip", "units": [list(u) for u in sorted(units, key=repr)], "delimiter": rng.choice([",", ";", "\t", "|"]),
            "time_type": rng.choice(["float", "float", "np.float64", "int"])}


# ------------------------------------------------------------------------------------------------ (b) CSV reader
def check_csv_read(ctx, case):
    import csv
    from pygamma_agreement import Continuum
    ctx.count("M-CSV-READ")
    path = os.path.join(workdir(ctx), f"in-{ctx.evaluations}.csv")
    delim = case["delimiter"]
    with open(path, "w", newline="", encoding="utf-8") as f:
        if case["writer"] == "csv":
            w = csv.writer(f, delimiter=delim, quoting=case["quoting"])
            for row in case["rows"]:
                w.writerow([row[0], row[1], repr(row[2]), repr(row[3])])
        else:
            for row in case["rows"]:
                f.write(delim.join('"' + str(x).replace('"', '""') + '"' for x in (row[0], row[1], repr(row[2]), repr(row[3]))) + "\r\n")
    valid = {(r[0], r[2], r[3], r[1]) for r in case["rows"] if r[3] - r[2] > 1e-6}
    n_invalid = sum(1 for r in case["rows"] if not r[3] - r[2] > 1e-6)
    try:
        for discard in (True, False):
            try:
                c = Continuum.from_csv(path, discard_invalid_rows=discard, delimiter=delim)
                got = units_set(c)
                if not discard and n_invalid:
                    ctx.fail("zero-length-row-not-rejected", {"invalid_rows": n_invalid}, monitor="M-CSV-READ")
                elif sorted(c.annotators) != sorted({v[0] for v in valid}):
                    ctx.fail("csv-annotators-differ-from-the-valid-rows", {"got": list(c.annotators), "expected": sorted({v[0] for v in valid}),
                                                                         "discard_invalid_rows": discard}, monitor="M-CSV-READ")
                elif got != valid:
                    ctx.fail("csv-units-differ-from-the-file", {"lost": sorted(valid - got, key=repr)[:3],
                                                                "unexpected": sorted(got - valid, key=repr)[:3],
                                                                "discard_invalid_rows": discard, "writer": case["writer"]},
                             monitor="M-CSV-READ")
            except ValueError as e:
                if discard or not n_invalid:
                    ctx.fail_exc("csv-read-raises:ValueError", e, monitor="M-CSV-READ")
            except Exception as e:
                ctx.fail_exc(f"csv-read-raises:{type(e).__name__}", e, monitor="M-CSV-READ")
    finally:
        os.unlink(path)


def gen_csv_read(rng):
    rows = set()
    anns = rng.sample(["alex", "bob", "carl d", "é"], rng.randint(1, 3))
    if rng.random() < 0.4:      # an annotator all of whose rows are invalid: it must not appear at all
        s0 = rand_time(rng)
        rows.add(("ghost", "lab", s0, s0))
    for _ in range(rng.randint(1, 12)):
        s = rand_time(rng)
        r = rng.random()
        if r < 0.15:
            e = s                       # zero-length
        elif r < 0.22:
            e = s - rng.uniform(0.1, 3)  # reversed
        elif r < 0.27:
            e = s + 5e-7                # below the segment precision
        else:
            e = s + rng.uniform(0.01, 40)
        rows.add((rng.choice(anns), rng.choice(HOSTILE[:17] + MULTILINE + ["lab"]), s, e))
    import csv
    return {"kind": "csv-read", "rows": [list(r) for r in sorted(rows, key=repr)], "delimiter": rng.choice([",", ";", "\t", "|"]),
            "writer": rng.choice(["csv", "csv", "hand"]), "quoting": rng.choice([csv.QUOTE_MINIMAL, csv.QUOTE_ALL, csv.QUOTE_NONNUMERIC])}


# ------------------------------------------------------------------------------------------------ (c) RTTM
def check_rttm(ctx, case):
    from pygamma_agreement import Continuum
    ctx.count("M-RTTM")
    path = os.path.join(workdir(ctx), f"in-{ctx.evaluations}.rttm")
    exp = set()
    with open(path, "w") as f:
        for uri, start, dur, spk in case["lines"]:
            f.write(f"SPEAKER {uri} 1 {start} {dur} <NA> <NA> {spk} <NA> <NA>\n")
            exp.add((uri, float(start), float(start) + float(dur), spk))
    try:
        c = Continuum.from_rttm(path)
        got = units_set(c)
        if got != exp:
            ctx.fail("rttm-units-differ-from-the-file", {"lost": sorted(exp - got, key=repr)[:3], "unexpected": sorted(got - exp, key=repr)[:3]},
                     monitor="M-RTTM")
        elif sorted(c.annotators) != sorted({l[0] for l in case["lines"]}):
            ctx.fail("rttm-annotators-differ", {"got": list(c.annotators)}, monitor="M-RTTM")
    except Exception as e:
        ctx.fail_exc(f"rttm-read-raises:{type(e).__name__}", e, monitor="M-RTTM")
    finally:
        os.unlink(path)


def gen_rttm(rng):
    uris = rng.sample(["fileA", "file_b", "rec-03", "x.y"], rng.randint(1, 3))
    lines = set()
    for _ in range(rng.randint(1, 14)):
        start = round(rng.uniform(0, 10 ** rng.randint(0, 5)), rng.randint(0, 6))
        dur = round(rng.uniform(0.001, 30), rng.randint(1, 6)) or 0.5
        lines.add((rng.choice(uris), repr(start), repr(dur), rng.choice(["spk1", "spk2", "Marvin", "é-ü", "A_B"])))
    return {"kind": "rttm", "lines": [list(l) for l in sorted(lines)]}


# ------------------------------------------------------------------------------------------------ (d) TextGrid
def _history(case, names):
    """What happened to the continuum before the import, and in how many calls the import is made: the readers add to
    whatever is there."""
    prior = case.get("prior")
    extra = {"units": {("ann", 99990.5, 99991.5, "prior unit")}, "other-annotator": {("someone else", 1.0, 2.0, "x")}}.get(prior, set())

    def prepare(c):
        from pyannote.core import Segment
        if prior == "registered":
            c.add_annotator("ann")
        elif prior == "units":
            c.add("ann", Segment(99990.5, 99991.5), "prior unit")
        elif prior == "other-annotator":
            c.add("someone else", Segment(1.0, 2.0), "x")
    selections = [case["selected"]]
    if prior == "twice" and len(names) >= 2:
        h = len(names) // 2
        selections = [names[:h], names[h:]]
    return prepare, extra, selections


def check_textgrid(ctx, case):
    from textgrid import TextGrid, IntervalTier, PointTier
    from pygamma_agreement import Continuum
    ctx.count("M-TEXTGRID")
    path = os.path.join(workdir(ctx), f"in-{ctx.evaluations}.TextGrid")
    tg = TextGrid()
    horizon = max([e for _, ivs in case["tiers"] for _, e, _ in ivs] + [1.0]) + 1.0
    for name, intervals in case["tiers"]:
        t = IntervalTier(name, 0.0, horizon)
        for s, e, mark in intervals:
            t.add(s, e, mark)
        tg.append(t)
    if case.get("point_tier"):
        p = PointTier("points", 0, 1000)
        p.add(1.5, "a point")
        tg.append(p)
    tg.write(path)
    prepare, extra, selections = _history(case, [n for n, _ in case["tiers"]])
    ctx.observe("import_history", str(case.get("prior")))
    selected = selections
    try:
        # the same unchanged file is imported several times in this process, in either order of the two label modes
        for tier_as_label in case.get("label_mode_order") or (False, True):
            exp = set(extra)
            for name, intervals in case["tiers"]:
                if not any(sel is None or name in sel for sel in selections):
                    continue
                for s, e, mark in intervals:
                    if mark:
                        exp.add(("ann", float(s), float(e), name if tier_as_label else mark))
            c = Continuum()
            prepare(c)
            for sel in selections:
                c.add_textgrid("ann", path, selected_tiers=sel, use_tier_as_annotation=tier_as_label)
            got = units_set(c)
            if got != exp:
                ctx.fail("textgrid-units-differ-from-the-file", {"lost": sorted(exp - got, key=repr)[:3],
                                                                 "unexpected": sorted(got - exp, key=repr)[:3],
                                                                 "tier_as_label": tier_as_label, "selected": selected, "prior": case.get("prior")},
                         monitor="M-TEXTGRID")
    except Exception as e:
        ctx.fail_exc(f"textgrid-read-raises:{type(e).__name__}", e, monitor="M-TEXTGRID")
    finally:
        os.unlink(path)


def gen_textgrid(rng):
    names = rng.sample(["words", "phones", "tier three", "ünï", "T4", "spk[1]", "spk1", "*", "words?", "wordsX", "a.b", "(x)"],
                       rng.randint(1, 5))
    tiers = []
    for name in names:
        t = 0.0
        ivs = []
        for _ in range(rng.randint(0, 8)):
            t += rng.choice([0.0, 0.0, round(rng.uniform(0.001, 3), 3)])
            d = round(rng.uniform(0.002, 5), rng.randint(0, 3)) or 1.0
            s, e = round(t, 3), round(t + d, 3)
            ivs.append([s, e, rng.choice(["", "a", "hello world", 'q"uote', "ünï", "x y z", "42"])])
            t = e
        tiers.append([name, ivs])
    sel = None if rng.random() < 0.4 else rng.sample(names, rng.randint(0, len(names)))   # [] selects nothing
    if len(tiers) >= 2 and rng.random() < 0.35:
        # aligned tiers (words / part of speech): the same boundaries, other marks
        src = rng.randrange(len(tiers))
        dst = rng.choice([i for i in range(len(tiers)) if i != src])
        tiers[dst][1] = [[s_, e_, rng.choice(["", "N", "V", "hello world", "a"])] for s_, e_, _ in tiers[src][1]]
    if rng.random() < 0.2:
        # two tiers bearing the same name (legal in Praat): each holds its own intervals
        t = 100.0
        ivs = []
        for _ in range(rng.randint(1, 4)):
            ivs.append([t, t + 1.5, rng.choice(["", "dup", "a"])])
            t += 2.0
        tiers.append([tiers[0][0], ivs])
    return {"kind": "textgrid", "tiers": tiers, "selected": sel, "point_tier": rng.random() < 0.3,
            "label_mode_order": rng.choice([[False, True], [True, False], [True, False, True], [False, True, False]]),
            "prior": rng.choice([None, None, "registered", "units", "other-annotator", "twice"])}


# ------------------------------------------------------------------------------------------------ (e) ELAN
def check_elan(ctx, case):
    import pympi
    from pygamma_agreement import Continuum
    ctx.count("M-ELAN")
    path = os.path.join(workdir(ctx), f"in-{ctx.evaluations}.eaf")
    eaf = pympi.Eaf()
    for name, anns in case["tiers"]:
        eaf.add_tier(name)
        for s, e, v in anns:
            eaf.add_annotation(name, s, e, v)
    ref = case.get("ref_tier")
    all_tiers = list(case["tiers"])
    if ref:
        # a reference tier (symbolic association): its annotations borrow the interval of the parent annotation they refer to
        eaf.add_linguistic_type("sym-assoc", constraints="Symbolic_Association", timealignable=False)
        eaf.add_tier(ref["parent"])
        for s, e, v in ref["parent_anns"]:
            eaf.add_annotation(ref["parent"], s, e, v)
        eaf.add_tier(ref["name"], ling="sym-assoc", parent=ref["parent"])
        for k, v in ref["refs"]:
            s, e, _ = ref["parent_anns"][k]
            eaf.add_ref_annotation(ref["name"], ref["parent"], (s + e) // 2, v)
        all_tiers.append([ref["parent"], ref["parent_anns"]])
        all_tiers.append([ref["name"], [[ref["parent_anns"][k][0], ref["parent_anns"][k][1], v] for k, v in ref["refs"]]])
        ctx.observe("elan_reference_tier", True)
    eaf.remove_tier("default")
    eaf.to_file(path)
    zero = case.get("zero_length")
    if zero is not None and all_tiers and len(all_tiers[0][1]) >= 2:
        # an annotation drawn with a click instead of a drag (start == end), in the middle of the first tier: written by editing
        # the file's time slots (pympi's own API refuses it).  The reader may refuse the file (ValueError) or import every
        # annotation of positive length - it may not return quietly with other annotations missing
        import re as _re
        name0, anns0 = all_tiers[0]
        victim = anns0[min(zero, len(anns0) - 2)]
        text = open(path, encoding="utf-8").read()
        m = _re.search(r'<TIME_SLOT TIME_SLOT_ID="(ts\d+)" TIME_VALUE="%d"' % int(victim[1]), text)
        if m and text.count('TIME_VALUE="%d"' % int(victim[1])) == 1:       # (only when that end time belongs to this annotation alone)
            text = text.replace(m.group(0), '<TIME_SLOT TIME_SLOT_ID="%s" TIME_VALUE="%d"' % (m.group(1), int(victim[0])), 1)
            open(path, "w", encoding="utf-8").write(text)
            all_tiers[0] = [name0, [a for a in anns0 if a is not victim]]
            case = dict(case, _zero_written=True)
            ctx.observe("elan_zero_length_annotation", True)
    prepare, extra, selections = _history(case, [n for n, _ in all_tiers])
    ctx.observe("import_history", str(case.get("prior")))
    try:
        for tier_as_label in case.get("label_mode_order") or (False, True):
            exp = set(extra)
            for name, anns in all_tiers:
                if not any(sel is None or name in sel for sel in selections):
                    continue
                for s, e, v in anns:
                    exp.add(("ann", float(s), float(e), name if tier_as_label else v))
            c = Continuum()
            prepare(c)
            for sel in selections:
                c.add_elan("ann", path, selected_tiers=sel, use_tier_as_annotation=tier_as_label)
            got = units_set(c)
            if got != exp:
                ctx.fail("elan-units-differ-from-the-file", {"lost": sorted(exp - got, key=repr)[:3],
                                                             "unexpected": sorted(got - exp, key=repr)[:3],
                                                             "tier_as_label": tier_as_label, "selected": selections, "prior": case.get("prior")},
                         monitor="M-ELAN")
    except Exception as e:
        if case.get("_zero_written") and isinstance(e, ValueError):
            ctx.observe("elan_zero_length_annotation", "refused:ValueError")
        else:
            ctx.fail_exc(f"elan-read-raises:{type(e).__name__}", e, monitor="M-ELAN")
    finally:
        for p in (path, path + ".bak"):
            if os.path.exists(p):
                os.unlink(p)


def gen_elan(rng):
    names = rng.sample(["speech", "gesture", "tier ü", "T-4", "spk[1]", "spk1", "*", "gest?", "gestX"], rng.randint(1, 4))
    tiers = []
    for name in names:
        anns = set()
        for _ in range(rng.randint(0, 8)):
            s = rng.randrange(0, 100000)
            anns.add((s, s + rng.randrange(1, 5000), rng.choice(["a", "b c", "ünï", "12", 'q"', "<tag>&amp;"])))
        tiers.append([name, [list(a) for a in sorted(anns)]])
    sel = None if rng.random() < 0.4 else rng.sample(names, rng.randint(0, len(names)))   # [] selects nothing
    if len(tiers) >= 2 and rng.random() < 0.35:
        src = rng.randrange(len(tiers))
        dst = rng.choice([i for i in range(len(tiers)) if i != src])
        tiers[dst][1] = [[s_, e_, rng.choice(["N", "V", "b c", "a"])] for s_, e_, _ in tiers[src][1]]
    ref = None
    if rng.random() < 0.3:
        pa, t = [], 200000
        for _ in range(rng.randint(1, 5)):
            pa.append([t, t + rng.randrange(200, 3000), rng.choice(["p", "parent ü", "x"])])
            t = pa[-1][1] + rng.randrange(0, 500)
        ref = {"name": "gloss", "parent": "ref-parent", "parent_anns": pa,
               "refs": [[k, rng.choice(["G", "gl oss", "x"])] for k in range(len(pa)) if rng.random() < 0.7]}
    return {"kind": "elan", "tiers": tiers, "selected": sel, "ref_tier": ref, "zero_length": rng.choice([None, None, None, 0, 1, 2]),
            "label_mode_order": rng.choice([[False, True], [True, False], [True, False, True]]),
            "prior": rng.choice([None, None, "registered", "units", "other-annotator", "twice"])}


def check_concurrent_roundtrips(ctx, case):
    """Several user threads write and read back their own continuum at once, each with its own delimiter."""
    from pygamma_agreement import Continuum
    from pyannote.core import Segment
    from . import _align_common as ac
    conts = []
    for units in case["continua"]:
        c = Continuum()
        for a, s, e, lab in units:
            c.add(a, Segment(s, e), lab)
        conts.append(c)
    d = workdir(ctx)

    def work(k):
        bad = []
        for r in range(case["repeat"]):
            path = os.path.join(d, f"conc-{ctx.evaluations}-{k}-{r}.csv")
            try:
                conts[k].to_csv(path, delimiter=case["delimiters"][k])
                back = Continuum.from_csv(path, delimiter=case["delimiters"][k])
                if not (back == conts[k]) or units_set(back) != units_set(conts[k]):
                    bad.append("differs")
            except Exception as e:
                bad.append("raises:" + type(e).__name__)
            finally:
                if os.path.exists(path):
                    os.unlink(path)
        return bad
    for k, (res, exc) in enumerate(ac.concurrent_calls([(lambda k=k: work(k)) for k in range(len(conts))])):
        ctx.count("M-ROUNDTRIP-CONCURRENT")
        if exc is not None:
            ctx.fail_exc(f"concurrent-roundtrip:harness-thread-raises:{type(exc).__name__}", exc, monitor="M-ROUNDTRIP-CONCURRENT")
        elif res:
            ctx.fail("concurrent-roundtrip:" + res[0], {"thread": k, "delimiter": case["delimiters"][k], "failures": len(res), "of": case["repeat"]},
                     monitor="M-ROUNDTRIP-CONCURRENT")


def gen_concurrent_roundtrips(rng):
    delims = [",", ";", "\t", "|"]
    rng.shuffle(delims)
    continua = []
    for k in range(4):
        units = set()
        for a in ["ann 1", "b;c", "d,e"][: rng.randint(1, 3)]:
            for _ in range(rng.randint(2, 6)):
                s = float(rng.randrange(0, 500))
                units.add((a, s, s + rng.randint(1, 9), rng.choice(["x", "y;z", "u,v", "w|q", "tab\tbed", "plain"])))
        continua.append([list(u) for u in sorted(units)])
    return {"kind": "concurrent-roundtrips", "continua": continua, "delimiters": delims, "repeat": 25}


CHECKS = {"concurrent-roundtrips": check_concurrent_roundtrips, "roundtrip": check_roundtrip, "csv-read": check_csv_read, "rttm": check_rttm, "textgrid": check_textgrid,
          "elan": check_elan}
GENS = [gen_roundtrip, gen_roundtrip, gen_csv_read, gen_rttm, gen_textgrid, gen_elan]


def check_case(ctx, case):
    CHECKS[case["kind"]](ctx, case)


def n_units(case):
    if case["kind"] == "concurrent-roundtrips":
        return sum(len(u) for u in case["continua"])
    if case["kind"] == "roundtrip":
        return len(case["units"])
    if case["kind"] == "csv-read":
        return len(case["rows"])
    if case["kind"] == "rttm":
        return len(case["lines"])
    return sum(len(t[1]) for t in case["tiers"])


def run(ctx):
    rng = ctx.rng
    for _ in range(ctx.scale(3, 30)):       # four user threads writing and reading back at once, each with its own delimiter
        case = gen_concurrent_roundtrips(rng)
        ctx.begin_case(case)
        ctx.observe("kind", case["kind"])
        check_case(ctx, case)
    for i in range(ctx.scale(150, 4000)):
        if ctx.out_of_time():
            break
        case = GENS[i % len(GENS)](rng)
        ctx.begin_case(case, nontrivial=n_units(case) >= 2)
        ctx.observe("kind", case["kind"])
        if "delimiter" in case:
            ctx.observe("delimiter", repr(case["delimiter"]))
        check_case(ctx, case)
    shutil.rmtree(os.path.join(ctx.outdir, "files"), ignore_errors=True)
