"""C19 - corpus shuffling yields valid corpora and each perturbation is confined to what it names."""
import itertools

import numpy as np

from .. import cases, monitors

TITLE = "Corpus shuffling yields valid corpora and each perturbation is confined"
DECIDING = ["M-CONCURRENT-FIRST-USE", "M-CORPUS", "M-CONFINED", "M-MAGNITUDE-0", "M-INV", "M-MAGNITUDE-HISTORY"]
LEVEL = "exploration"
RULE = ("seeded random single-annotator labelled references (1-40 units, durations >= 1, six segment families) x magnitude "
        "in {0, 1} U U(0,1) x annotator counts 1-5 or name lists x extra categories; per reference: each perturbation "
        "applied alone to corpus_from_reference(...) (shift, false negatives, false positives, category shuffle with and "
        "without prevalence / overlap function, splits), each perturbation again on a corpus already changed by another "
        "one (confinement is judged against the corpus it was given), all 32 flag combinations through corpus_shuffle, "
        "then the same tool object with its public magnitude attribute changed (to 0 or another value), with and "
        "without include_ref; the icontract class invariant on Continuum (M-INV) and a purity snapshot of the reference "
        "are active. non-trivial = reference with >= 2 units; distinct by SHA-1 of (reference, magnitude, annotators, seed)")
ASSUMPTIONS = [
    "reference units last >= 1 time unit: the split's 1 % guard against zero-length pieces is meaningless near the "
    "segment precision (1e-6)",
    "an announced split whose cut (read from a spy on numpy.random.uniform) leaves a piece not longer than the segment "
    "precision cannot be made without creating an illegal segment: it is exempted from 'one unit per split'",
    "announced splits = int(magnitude * 2.5 * units of the reference) per annotator (the tool's documented factor)",
    "total durations compared with 1e-9 relative tolerance",
    "references are fully labelled or (15 %) fully unlabelled; for unlabelled references the category perturbations are "
    "skipped (nothing to shuffle); mixed references are not generated (labels must be sortable)",
]


def plan(tier, seed):
    n = 4 if tier == "quick" else 16
    return {"shards": [{"env": {}, "params": {"time_budget": 70 if tier == "quick" else 700}} for _ in range(n)],
            "timeout": 420 if tier == "quick" else 2700}


_rs = {}


def setup():
    if "spy" not in _rs:
        _rs["spy"] = monitors.RngSpy().install()
        monitors.install_continuum_invariant("M-INV", stride=23)
    return _rs["spy"]


def units_by_annotator(c):
    return {a: [(u.segment.start, u.segment.end, u.annotation) for u in c._annotations[a]] for a in c._annotations}


def expected_names(annotators):
    if isinstance(annotators, int):
        return [f"annotator_{i}" for i in range(annotators)]
    return list(annotators)


def check_valid_corpus(ctx, corpus, names, ref_units, allowed, what, include_ref=None):
    ctx.count("M-CORPUS")
    got = units_by_annotator(corpus)
    want = sorted(names + ([include_ref] if include_ref else []))
    if sorted(got.keys()) != want:
        ctx.fail("corpus-annotators-differ-from-request", {"what": what, "got": sorted(got.keys()), "want": want}, monitor="M-CORPUS")
        return got
    for a, us in got.items():
        if not us:
            ctx.fail("corpus-has-an-empty-annotator", {"what": what, "annotator": a}, monitor="M-CORPUS")
        for (s, e, lab) in us:
            if not e - s > 0:
                ctx.fail("corpus-has-a-non-positive-duration-unit", {"what": what, "unit": [s, e, lab]}, monitor="M-CORPUS")
                return got
            if lab not in allowed:
                ctx.fail("corpus-has-a-category-outside-the-reference", {"what": what, "label": repr(lab),
                                                                         "allowed": sorted(map(str, allowed))}, monitor="M-CORPUS")
                return got
    if not set(corpus.categories) <= set(allowed):
        ctx.fail("corpus-categories-outside-the-reference", {"what": what, "extra": sorted(set(corpus.categories) - set(allowed))},
                 monitor="M-CORPUS")
    if include_ref and got.get(include_ref) != ref_units:
        ctx.fail("included-reference-differs-from-the-reference", {"what": what}, monitor="M-CORPUS")
    return got


def check_concurrent_first_use(ctx, case):
    """ONE tool object, never used before, asked for a corpus by several user threads at once (magnitude 0: every generated
    annotator is an exact copy of the reference, whatever the interleaving)."""
    from pygamma_agreement import CorpusShufflingTool
    from . import _align_common as ac
    cspec = case["reference"]
    ref_name = sorted(cspec["ann"].keys())[0]
    ref_units = sorted((tuple(u) for u in cspec["ann"][ref_name]), key=cases.unit_key)
    for rep in range(case["repeat"]):
        tool = CorpusShufflingTool(0.0, cases.build_continuum(cspec))        # a fresh tool: the threads race on its FIRST use
        calls = [(lambda k=k: units_by_annotator(tool.corpus_shuffle(["t%d-a" % k, "t%d-b" % k], shift=True, false_neg=True, split=True,
                                                                      include_ref=(k % 2 == 0))))
                 for k in range(case["threads"])]
        for k, (res, exc) in enumerate(ac.concurrent_calls(calls)):
            ctx.count("M-CONCURRENT-FIRST-USE")
            if exc is not None:
                ctx.fail_exc(f"concurrent-first-use:raises:{type(exc).__name__}", exc, monitor="M-CONCURRENT-FIRST-USE")
                continue
            want = sorted(["t%d-a" % k, "t%d-b" % k] + ([ref_name] if k % 2 == 0 else []))
            if sorted(res.keys()) != want or any(us != ref_units for us in res.values()):
                ctx.fail("concurrent-first-use:magnitude-0-corpus-is-not-a-copy-of-the-reference",
                         {"thread": k, "annotators": sorted(res.keys()), "expected": want,
                          "units_per_annotator": {a: len(us) for a, us in res.items()}, "reference_units": len(ref_units)}, monitor="M-CONCURRENT-FIRST-USE")
                return


def check_case(ctx, case):
    if case.get("threads"):
        return check_concurrent_first_use(ctx, case)
    from pygamma_agreement import CorpusShufflingTool
    spy = setup()
    cspec = case["reference"]
    ref = cases.build_continuum(cspec)
    ref_name = sorted(cspec["ann"].keys())[0]
    ref_units = sorted((tuple(u) for u in cspec["ann"][ref_name]), key=cases.unit_key)
    m = case["magnitude"]
    extra = case.get("extra_categories")
    before = monitors.snapshot_continuum(ref)
    if case.get("magnitude_type") == "float32":
        m = np.float32(m)
    elif case.get("magnitude_type") == "float64":
        m = np.float64(m)
    try:
        cst = CorpusShufflingTool(m, ref, categories=extra)
    except Exception as e:
        ctx.fail_exc(f"constructor-raises:{type(e).__name__}", e, monitor="M-CORPUS")
        return
    allowed = set(cases.spec_labels(cspec)) | set(extra or [])
    if any(u[2] is None for u in cspec["ann"][ref_name]):
        allowed.add(None)
    names = expected_names(case["annotators"])
    np.random.seed(case["np_seed"])
    n_ref = len(ref_units)

    def annotators_arg():
        a = case["annotators"]
        kind = case.get("annotators_as", "list")
        if not isinstance(a, list):
            # a number of annotators: a plain int, or the numpy integer an array / a data frame hands out
            return {"np.int64": np.int64, "np.int32": np.int32}.get(kind, int)(a)
        if kind == "iter":
            return iter(list(a))
        if kind == "map":
            return map(str, a)
        if kind == "generator":
            return (x for x in a)            # any iterable is accepted by the signature
        if kind == "tuple":
            return tuple(a)
        return list(a)

    def fresh():
        return cst.corpus_from_reference(annotators_arg())

    try:
        base = units_by_annotator(fresh())
    except Exception as e:
        ctx.count("M-CORPUS")
        ctx.fail_exc(f"corpus_from_reference-raises:{type(e).__name__}", e, monitor="M-CORPUS")
        return
    ctx.count("M-CORPUS")
    if sorted(base.keys()) != sorted(names) or any(us != ref_units for us in base.values()):
        ctx.fail("corpus_from_reference-is-not-a-copy-of-the-reference", {"got": {a: us[:4] for a, us in base.items()}}, monitor="M-CORPUS")
        return
    perturbations = [("shift", lambda c: cst.shift_shuffle(c)), ("false_neg", lambda c: cst.false_neg_shuffle(c)),
                     ("false_pos", lambda c: cst.false_pos_shuffle(c)), ("category", lambda c: cst.category_shuffle(c)),
                     ("category-prevalence", lambda c: cst.category_shuffle(c, prevalence=True)),
                     ("category-overlap", lambda c: cst.category_shuffle(c, overlapping_fun=lambda a, b: 1.0 if a == b else 0.5)),
                     ("split", lambda c: cst.splits_shuffle(c))]
    def check_perturbation(pname, fn, corpus, m_now, context):
        """Applies one perturbation to `corpus` and checks that it changed only what it names, relative to the corpus it
        was given (a fresh copy of the reference, or a corpus already perturbed by something else)."""
        before_u = units_by_annotator(corpus)
        try:
            with spy.recording(limit=2000000) as log:
                fn(corpus)
        except Exception as e:
            ctx.fail_exc(f"{pname}:raises:{type(e).__name__}", e, monitor="M-CONFINED")
            return
        got = check_valid_corpus(ctx, corpus, names, ref_units, allowed, pname + context)
        ctx.count("M-CONFINED")
        ctx.observe("perturbation_context", context or "fresh")
        for a in names:
            us = got.get(a, [])
            b = before_u.get(a, [])
            det = {"perturbation": pname, "context": context or "fresh copy of the reference", "annotator": a, "magnitude": m_now,
                   "reference_units": n_ref, "units_before": len(b), "result_units": len(us)}
            if m_now == 0:
                ctx.count("M-MAGNITUDE-0")
                if us != b:
                    ctx.fail(f"{pname}:magnitude-0-is-not-an-exact-copy", dict(det, got=us[:5], before=b[:5]), monitor="M-MAGNITUDE-0")
                    break
            if pname.startswith("category"):
                if sorted({(s_, e_) for s_, e_, _ in us}) != sorted({(s_, e_) for s_, e_, _ in b}):
                    ctx.fail("category-shuffle-changed-the-segments", det, monitor="M-CONFINED")
                    break
            elif pname == "split":
                announced = int(m_now * cst.SPLIT_FACTOR * n_ref)
                impossible = _impossible_splits(log, len(names))
                tot, tot_b = sum(e_ - s_ for s_, e_, _ in us), sum(e_ - s_ for s_, e_, _ in b)
                if abs(tot - tot_b) > 1e-9 * max(1.0, tot_b):
                    ctx.fail("split-changed-the-total-annotated-duration", dict(det, total=tot, total_before=tot_b), monitor="M-CONFINED")
                    break
                if not (len(b) + announced - impossible <= len(us) <= len(b) + announced):
                    ctx.fail("split-did-not-add-one-unit-per-announced-split", dict(det, announced=announced, exempted=impossible),
                             monitor="M-CONFINED")
                    break
                if {l for _, _, l in us} - {l for _, _, l in b}:
                    ctx.fail("split-changed-labels", det, monitor="M-CONFINED")
                    break
            elif pname == "false_neg":
                if not set(us) <= set(b):
                    ctx.fail("false-negatives-added-or-changed-units", dict(det, extra=sorted(set(us) - set(b))[:3]), monitor="M-CONFINED")
                    break
            elif pname == "false_pos":
                if not set(b) <= set(us):
                    ctx.fail("false-positives-removed-or-changed-units", dict(det, missing=sorted(set(b) - set(us))[:3]),
                             monitor="M-CONFINED")
                    break
            elif pname == "shift":
                if len(us) != len(b):
                    ctx.fail("shift-changed-the-number-of-units", det, monitor="M-CONFINED")
                    break
                if sorted(str(l) for _, _, l in us) != sorted(str(l) for _, _, l in b):
                    ctx.fail("shift-changed-labels", det, monitor="M-CONFINED")
                    break

    if None in allowed:
        # an unlabelled reference has no category to shuffle (the library's category shuffle needs sortable labels):
        # the category perturbations and the flag combinations that include them are outside the statement
        perturbations = [p_ for p_ in perturbations if not p_[0].startswith("category")]
        ctx.observe("reference_labels", "unlabelled")
    for pname, fn in perturbations:
        check_perturbation(pname, fn, fresh(), m, "")
    # each perturbation applied to a corpus that another perturbation has already changed
    for pname, fn in perturbations:
        oname, ofn = ctx.rng.choice([p_ for p_ in perturbations if p_[0] != pname])
        corpus = fresh()
        try:
            ofn(corpus)
        except Exception as e:
            ctx.fail_exc(f"{oname}:raises:{type(e).__name__}", e, monitor="M-CONFINED")
            continue
        check_perturbation(pname, fn, corpus, m, f" after {oname}")
    # all 32 flag combinations through corpus_shuffle
    for flags in itertools.product([False, True], repeat=5):
        shift, fpos, fneg, split, cat = flags
        if cat and None in allowed:
            continue
        include = case.get("include_ref", False) and (sum(flags) % 2 == 0)
        try:
            corpus = cst.corpus_shuffle(annotators_arg(),
                                        shift=shift, false_pos=fpos, false_neg=fneg, split=split, cat_shuffle=cat, include_ref=include)
        except Exception as e:
            ctx.fail_exc(f"corpus_shuffle:raises:{type(e).__name__}", e, monitor="M-CORPUS")
            continue
        what = "corpus_shuffle(" + ",".join(n for n, f in zip(("shift", "false_pos", "false_neg", "split", "cat"), flags) if f) + ")"
        got = check_valid_corpus(ctx, corpus, names, ref_units, allowed, what, include_ref=ref_name if include else None)
        if include and m > 0 and sum(flags) <= 1:
            # the returned corpus (with the reference annotator in it) is the caller's: perturbing it further must not
            # reach the reference continuum the tool was built from
            ctx.count("M-INCLUDED-REF-INDEPENDENT")
            try:
                cst.splits_shuffle(corpus)
                cst.false_neg_shuffle(corpus)
            except Exception:
                pass
            d_ref = monitors.diff_snap(before, monitors.snapshot_continuum(ref))
            if d_ref:
                ctx.fail("reference-changed-by-perturbing-a-corpus-that-includes-it", {"diff": d_ref[:3], "what": what}, monitor="M-CORPUS")
                break
        if m == 0:
            ctx.count("M-MAGNITUDE-0")
            for a in names:
                if got.get(a) != ref_units:
                    ctx.fail("corpus_shuffle:magnitude-0-is-not-an-exact-copy", {"what": what, "annotator": a}, monitor="M-MAGNITUDE-0")
                    break
    # history on the SAME tool object: its public magnitude attribute is changed and everything is asked again
    if case.get("then_magnitude") is not None:
        m2 = case["then_magnitude"]
        cst.magnitude = m2
        ctx.count("M-MAGNITUDE-HISTORY")
        for pname, fn in perturbations:
            check_perturbation(pname, fn, fresh(), m2, f" (tool magnitude changed from {m} to {m2})")
        if m2 == 0:
            try:
                corpus = cst.corpus_shuffle(annotators_arg(),
                                            shift=True, false_pos=True, false_neg=True, split=True, cat_shuffle=None not in allowed)
                got = units_by_annotator(corpus)
                ctx.count("M-MAGNITUDE-0")
                if any(got.get(a) != ref_units for a in names):
                    ctx.fail("corpus_shuffle:magnitude-0-is-not-an-exact-copy", {"what": "all flags, after the tool's magnitude was set to 0",
                                                                                 "previous_magnitude": m}, monitor="M-MAGNITUDE-0")
            except Exception as e:
                ctx.fail_exc(f"corpus_shuffle:raises:{type(e).__name__}", e, monitor="M-CORPUS")
    d = monitors.diff_snap(before, monitors.snapshot_continuum(ref))
    if d:
        ctx.fail("reference-modified-by-the-shuffling-tool", {"diff": d, "extra_categories": extra}, monitor="M-CORPUS")


def _impossible_splits(log, n_annotators):
    """Splits whose cut leaves a piece no longer than the segment precision (read from the uniform() draws)."""
    n = 0
    for name, tid, a, k, r in log:
        if name == "uniform" and len(a) >= 2:
            low, high = float(a[0]), float(a[1])
            start = (low - 0.01 * high) / 0.99
            if high - float(r) <= 1e-6 * (1 + 1e-3) or float(r) - start <= 1e-6 * (1 + 1e-3):
                n += 1
    return n


def gen_case(ctx):
    rng = ctx.rng
    k = rng.choice([1, 2, 3, 5, 8, 13, 20, 40])
    fam = rng.choice(["grid", "dyadic", "touching", "longoverlap", "negative", "offset"])
    labels = rng.choice([cases.LABELS_SMALL, cases.LABELS_WORDS, ["only"], cases.LABELS_NUM])
    name = rng.choice(["Ref", "annotator_9", "zed", "annotator_1"])
    while True:
        cspec = cases.gen_continuum(rng, n_annot=1, sizes=[k], family=fam, labels=labels, names=[name])
        us = [u for u in cspec["ann"][name] if u[1] - u[0] >= 1.0]
        if us:
            cspec["ann"][name] = us
            break
    unlabelled = rng.random() < 0.15
    if unlabelled:          # a reference whose units carry no label at all
        cspec["ann"][name] = [[u[0], u[1], None] for u in cspec["ann"][name]]
        cspec["ann"][name] = [list(x) for x in sorted({tuple(u) for u in cspec["ann"][name]}, key=cases.unit_key)]
    m = rng.choice([0.0, 1.0, 1.0, rng.random(), rng.random(), rng.random()])
    annotators = rng.choice([1, 2, 3, 5, ["x", "y"], ["b", "a", "c"], ["Martino", "Martingale"]])
    homonym = False
    if rng.random() < 0.15:
        # one of the generated annotators bears the reference annotator's own name (legal as long as the reference itself is not included)
        annotators = [name, "other"] if rng.random() < 0.5 else ["a", name, "z"]
        homonym = True
    extra = rng.choice([None, None, ["extra1"], ["zz", "a"]]) if not unlabelled else None
    return {"reference": cspec, "magnitude": m, "annotators": annotators, "extra_categories": extra,
            "include_ref": (rng.random() < 0.5) and not homonym and name not in expected_names(annotators), "np_seed": rng.randrange(2 ** 31),
            "then_magnitude": rng.choice([None, 0.0, 0.0, rng.random()]),
            "annotators_as": rng.choice(["list", "list", "tuple", "generator", "iter", "map"] if isinstance(annotators, list)
                                        else ["int", "int", "np.int64", "np.int32"]),
            "magnitude_type": rng.choice(["float", "float", "float", "float64", "float32"])}


def run(ctx):
    setup()
    # one fresh tool object asked for corpora by 4 user threads at once (a long reference, so that its first use takes a while)
    for _ in range(ctx.scale(2, 10)):
        k = ctx.rng.choice([150, 300, 500])      # (the tool's first use costs O(units^2))
        refspec = {"ann": {"Ref": [[float(3 * i), float(3 * i + 2), ctx.rng.choice(cases.LABELS_SMALL)] for i in range(k)]}, "family": "long-reference"}
        case = {"reference": refspec, "threads": 4, "repeat": 3}
        ctx.begin_case(case)
        ctx.observe("family", "concurrent-first-use")
        check_case(ctx, case)
    for _ in range(ctx.scale(70, 2000)):
        if ctx.out_of_time():
            break
        case = gen_case(ctx)
        ctx.begin_case(case, nontrivial=cases.spec_num_units(case["reference"]) >= 2)
        ctx.observe("magnitude", "0" if case["magnitude"] == 0 else ("1" if case["magnitude"] == 1 else "(0,1)"))
        ctx.observe("reference_units", cases.spec_num_units(case["reference"]))
        ctx.observe("annotators", str(case["annotators"]))
        ctx.observe("family", case["reference"]["family"])
        check_case(ctx, case)
