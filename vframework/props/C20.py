"""C20 - command-line results equal the API results for the same options, in every output mode."""
import contextlib
import csv
import io
import json
import math
import os
import re
import shutil
import subprocess
import sys

import numpy as np

from .. import cases

TITLE = "Command-line results equal the API results for the same options"
DECIDING = ["M-CLI", "M-CLI-OPTION-EFFECT"]
LEVEL = "exploration"
RULE = ("generated input files (CSV with delimiters , ; | and -s; RTTM; 1-2 files per invocation; numeric labels when "
        "-d numerical) x random option sets (-a -b -e -p -n -d -m -c -k --seed -s, output mode print / -o / -j); the "
        "entry point pygamma_cmd() is driven in-process (argv patched, stdout captured, reports written to a scratch "
        "directory), a thorough-tier share also as a real subprocess; the oracle is the API called in the same "
        "process after the same numpy seed with the equivalent arguments, files in the same order; all reported "
        "numbers are parsed back from stdout / the CSV report / the JSON report and compared; for one option per case "
        "the API is also evaluated with that option at its default, to record that the option mattered on this input; files of 4 x 16 and 4 x 32 units "
        "(a finite window in fast mode) with and without -m: one reading of fast / exact for all of them; runs over three files of which one is unreadable. "
        "non-trivial = every invocation with --seed; distinct by SHA-1 of (files, options)")
ASSUMPTIONS = [
    "equivalent API call: Continuum.from_csv/from_rttm, CombinedCategoricalDissimilarity(alpha, beta, delta_empty, "
    "cat_dissim chosen by -d over the file's categories), ShuffleContinuumSampler when -m, compute_gamma(precision_level="
    "-p, n_samples=-n) in fast mode as the tool does, the numpy seed applied once before the first file (an exact-mode "
    "API value, or the seed applied before each file, are accepted as well: the statement does not fix them)",
    "values compared with |a-b| <= 1e-6*max(1,|a|); nan equals nan; the gamma-k cell of the CSV report must evaluate as "
    "a dict literal of numbers (inf / nan spelled as Python prints them)",
    "when the equivalent API call itself raises, the tool must fail as well (and vice versa is a violation)",
    "invocations without --seed are only required to run and produce parseable output",
]


def plan(tier, seed):
    n = 4 if tier == "quick" else 16
    return {"shards": [{"env": {}, "params": {"time_budget": 50 if tier == "quick" else 700}} for _ in range(n)],
            "timeout": 460 if tier == "quick" else 2700}


def close(a, b):
    a, b = float(a), float(b)
    if math.isnan(a) and math.isnan(b):
        return True
    if a == b:
        return True
    return abs(a - b) <= 1e-6 * max(1.0, abs(a), abs(b))


# --------------------------------------------------------------------------------------------- files
def write_input(case, d):
    paths = []
    for i, f in enumerate(case["files"]):
        if case["format"] == "csv":
            path = os.path.join(d, f"input{i}.csv")
            with open(path, "w", newline="") as fh:
                w = csv.writer(fh, delimiter=case["separator"])
                if f.get("unreadable") == "header":
                    w.writerow(["annotator", "annotation", "segment_start", "segment_end"])      # a header line: the readers refuse the file
                for a, us in f["ann"].items():
                    for s, e, lab in us:
                        w.writerow([a, lab, s, e])
        else:
            path = os.path.join(d, f"input{i}.rttm")
            with open(path, "w") as fh:
                for a, us in f["ann"].items():
                    for s, e, lab in us:
                        fh.write(f"SPEAKER {a} 1 {s} {round(e - s, 6)} <NA> <NA> {lab} <NA> <NA>\n")
        paths.append(path)
    return paths


def build_argv(case, paths, d):
    o = case["options"]
    argv = list(paths)
    if case["format"] == "csv":
        if case["separator"] != "," or o.get("explicit_separator"):
            argv += ["-s", case["separator"]]
    else:
        argv += ["-f", "rttm"]
    if o.get("seed") is not None:
        argv += ["--seed", str(o["seed"])]
    for flag, key in (("-a", "alpha"), ("-b", "beta"), ("-e", "delta"), ("-p", "precision"), ("-n", "n_samples"), ("-d", "cat_dissim")):
        if o.get(key) is not None:
            argv += [flag, str(o[key])]
    for flag, key in (("-c", "gamma_cat"), ("-k", "gamma_k"), ("-m", "mathet")):
        if o.get(key):
            argv.append(flag)
    out = None
    if case["output"] == "csv":
        out = os.path.join(d, "report.csv")
        argv += ["-o", out]
    elif case["output"] == "json":
        out = os.path.join(d, "report.json")
        argv += ["-j", out]
    return argv, out


# --------------------------------------------------------------------------------------------- API oracle
DEFAULTS = {"alpha": 1.0, "beta": 1.0, "delta": 1.0, "precision": 0.05, "n_samples": 30, "cat_dissim": "absolute",
            "mathet": False}


def api_results(case, paths, override=None, fast=True, reseed_each_file=False):
    import pygamma_agreement as pa
    o = dict(DEFAULTS)
    o.update({k: v for k, v in case["options"].items() if v is not None})
    o.update(override or {})
    if o.get("seed") is not None:
        np.random.seed(o["seed"])
    out = []
    for path in paths:
        if reseed_each_file and o.get("seed") is not None:
            np.random.seed(o["seed"])
        if case["format"] == "csv":
            c = pa.Continuum.from_csv(path, delimiter=case["separator"])
        else:
            c = pa.Continuum.from_rttm(path)
        cat = None
        if o["cat_dissim"] == "levenshtein":
            cat = pa.LevenshteinCategoricalDissimilarity(c.categories)
        elif o["cat_dissim"] == "numerical":
            cat = pa.NumericalCategoricalDissimilarity(c.categories)
        d = pa.CombinedCategoricalDissimilarity(alpha=float(o["alpha"]), beta=float(o["beta"]), delta_empty=float(o["delta"]),
                                                cat_dissim=cat)
        sampler = pa.ShuffleContinuumSampler() if o["mathet"] else None
        g = c.compute_gamma(dissimilarity=d, precision_level=float(o["precision"]), fast=fast, sampler=sampler,
                            n_samples=int(o["n_samples"]))
        res = {"gamma": float(g.gamma)}
        with np.errstate(all="ignore"):
            if o.get("gamma_cat"):
                res["gamma-cat"] = float(g.gamma_cat)
            if o.get("gamma_k"):
                res["gamma-k"] = {cat_: float(g.gamma_k(cat_)) for cat_ in c.categories}
        out.append(res)
    return out


# --------------------------------------------------------------------------------------------- CLI
def run_cli_inprocess(argv):
    from pygamma_agreement import cli_apps
    buf = io.StringIO()
    old = sys.argv
    sys.argv = ["pygamma-agreement"] + argv
    err = None
    try:
        with contextlib.redirect_stdout(buf), np.errstate(all="ignore"):
            try:
                cli_apps.pygamma_cmd()
            except SystemExit as e:
                if e.code not in (0, None):
                    err = e
            except Exception as e:
                err = e
    finally:
        sys.argv = old
    return buf.getvalue(), err


def run_cli_subprocess(argv, repo):
    env = dict(os.environ, PYTHONPATH=repo, PYTHONWARNINGS="ignore")
    r = subprocess.run([sys.executable, "-c", "from pygamma_agreement.cli_apps import pygamma_cmd; pygamma_cmd()"] + argv,
                       capture_output=True, text=True, env=env, timeout=600)
    return r.stdout, (None if r.returncode == 0 else RuntimeError(f"exit {r.returncode}: {r.stderr[-300:]}"))


NUM = r"[-+]?(?:inf|nan|\d+(?:\.\d*)?(?:[eE][-+]?\d+)?)"


def parse_stdout(text, paths, options):
    lines = [l for l in text.splitlines() if l.strip() and "Long-step" not in l and "slacks added" not in l
             and not l.startswith("Discarded")]
    out = []
    i = 0
    for path in paths:
        if i >= len(lines) or lines[i] != str(path):
            raise ValueError(f"expected the file name {path!r}, got {lines[i] if i < len(lines) else None!r}")
        i += 1
        res = {}
        m = re.fullmatch(rf"gamma=({NUM})", lines[i]) if i < len(lines) else None
        if not m:
            raise ValueError(f"no gamma line after {path}: {lines[i] if i < len(lines) else None!r}")
        res["gamma"] = float(m.group(1))
        i += 1
        if options.get("gamma_cat"):
            m = re.fullmatch(rf"gamma-cat=({NUM})", lines[i]) if i < len(lines) else None
            if not m:
                raise ValueError(f"no gamma-cat line: {lines[i] if i < len(lines) else None!r}")
            res["gamma-cat"] = float(m.group(1))
            i += 1
        if options.get("gamma_k"):
            res["gamma-k"] = {}
            while i < len(lines):
                m = re.fullmatch(rf"gamma-k\('(.*)'\)=({NUM})", lines[i])
                if not m:
                    break
                res["gamma-k"][m.group(1)] = float(m.group(2))
                i += 1
        out.append(res)
    if i != len(lines):
        raise ValueError(f"unexpected extra output: {lines[i:i + 3]}")
    return out


def parse_csv_report(path, sep, paths, options):
    with open(path, newline="") as f:
        rows = list(csv.reader(f, delimiter=sep))
    header = ["filename", "gamma"] + (["gamma-cat"] if options.get("gamma_cat") else []) + (["gamma-k"] if options.get("gamma_k") else [])
    if rows[0] != header:
        raise ValueError(f"CSV header {rows[0]} != {header}")
    out = []
    for row, p in zip(rows[1:], paths):
        if row[0] != str(p):
            raise ValueError(f"CSV row for {row[0]!r}, expected {p!r}")
        res = {"gamma": float(row[1])}
        k = 2
        if options.get("gamma_cat"):
            res["gamma-cat"] = float(row[k])
            k += 1
        if options.get("gamma_k"):
            val = eval(row[k], {"__builtins__": {}}, {"inf": float("inf"), "nan": float("nan")})  # literal dict of numbers
            if not isinstance(val, dict) or not all(isinstance(v, (int, float)) and not isinstance(v, bool) for v in val.values()):
                raise ValueError(f"gamma-k cell is not a dict of plain numbers: {row[k][:120]!r}")
            res["gamma-k"] = {str(a): float(b) for a, b in val.items()}
        out.append(res)
    if len(rows) - 1 != len(paths):
        raise ValueError(f"{len(rows) - 1} result rows for {len(paths)} files")
    return out


def parse_json_report(path, paths, options):
    with open(path) as f:
        data = json.load(f)
    out = []
    for p in paths:
        if str(p) not in data:
            raise ValueError(f"no JSON entry for {p}")
        e = data[str(p)]
        res = {"gamma": float(e["gamma"])}
        if options.get("gamma_cat"):
            res["gamma-cat"] = float(e["gamma-cat"])
        if options.get("gamma_k"):
            res["gamma-k"] = {str(a): float(b) for a, b in e["gamma-k"].items()}
        out.append(res)
    return out


def same_results(a, b):
    if len(a) != len(b):
        return f"{len(a)} results vs {len(b)}"
    for i, (x, y) in enumerate(zip(a, b)):
        for key in set(x) | set(y):
            if key not in x or key not in y:
                return f"file {i}: {key} reported on one side only"
            if key == "gamma-k":
                if set(x[key]) != set(y[key]):
                    return f"file {i}: gamma-k categories {sorted(x[key])} vs {sorted(y[key])}"
                for c in x[key]:
                    if not close(x[key][c], y[key][c]):
                        return f"file {i}: gamma-k({c!r}) {x[key][c]} vs {y[key][c]}"
            elif not close(x[key], y[key]):
                return f"file {i}: {key} {x[key]} vs {y[key]}"
    return None


def check_case(ctx, case):
    if case.get("companion"):        # replay of a verdict that rests on two runs: the other one first
        check_case(ctx, case["companion"])
        case = {k: v for k, v in case.items() if k != "companion"}
    d = os.path.join(ctx.outdir, f"cli-{ctx.evaluations}-{len(_needed_readings)}")
    os.makedirs(d, exist_ok=True)
    try:
        _check(ctx, case, d)
    finally:
        shutil.rmtree(d, ignore_errors=True)


def _check(ctx, case, d):
    paths = write_input(case, d)
    argv, report = build_argv(case, paths, d)
    o = case["options"]
    ctx.count("M-CLI")
    if case.get("subprocess"):
        text, err = run_cli_subprocess(argv, os.path.realpath(os.environ.get("VERIF_REPO", "/repo")))
    else:
        text, err = run_cli_inprocess(argv)
    api, api_err = None, None
    if o.get("seed") is not None:
        try:
            api = api_results(case, paths)
        except Exception as e:
            api_err = e
    detail = {"argv": argv[len(paths):], "output": case["output"], "stdout": text[-400:]}
    if err is not None:
        if api_err is not None:
            ctx.observe("both_raise", type(api_err).__name__)
            return
        ctx.fail(f"cli-fails:{type(err).__name__}:{case['output']}", dict(detail, error=str(err)[:300]), monitor="M-CLI")
        return
    if api_err is not None:
        ctx.fail("cli-succeeds-where-the-api-raises", dict(detail, api_error=f"{type(api_err).__name__}: {api_err}"[:300]), monitor="M-CLI")
        return
    try:
        if case["output"] == "print":
            got = parse_stdout(text, paths, o)
        elif case["output"] == "csv":
            got = parse_csv_report(report, case["separator"] if case["format"] == "csv" else ",", paths, o)
        else:
            got = parse_json_report(report, paths, o)
    except Exception as e:
        ctx.fail(f"unparseable-{case['output']}-output:{type(e).__name__}", dict(detail, error=str(e)[:300]), monitor="M-CLI")
        return
    if api is None:
        ctx.observe("unseeded_run_parsed", True)
        return
    diff = same_results(got, api)
    if case.get("compare_readings"):
        try:
            exact_ok = same_results(got, api_results(case, paths, fast=False)) is None
        except Exception:
            exact_ok = None
        if exact_ok is not None and exact_ok != (diff is None):
            need = "fast" if diff is None else "exact"
            _needed_readings.setdefault(need, (argv[len(paths):], {k: v for k, v in case.items() if k != "companion"}))
            ctx.observe("reading_needed_on_a_large_file", need)
            if len(_needed_readings) == 2:
                other = _needed_readings["exact" if need == "fast" else "fast"][1]
                ctx.fail("cli-follows-fast-or-exact-mode-depending-on-unrelated-options",
                         {"fast_mode_needed_for": _needed_readings["fast"][0], "exact_mode_needed_for": _needed_readings["exact"][0]},
                         case=dict(case, companion=other), monitor="M-CLI")     # the replay runs the companion case first
                return
        elif exact_ok is not None:
            ctx.observe("reading_needed_on_a_large_file", "both-match" if exact_ok else "none-matches")
    if diff:
        # other readings of "the API result for the same file and seed": exact mode; the seed applied before each file
        for label, kw in (("exact_mode", {"fast": False}), ("seed_applied_per_file", {"reseed_each_file": True})):
            try:
                if same_results(got, api_results(case, paths, **kw)) is None:
                    ctx.observe("matches_alternative_api_reading", label)
                    diff = None
                    break
            except Exception:
                pass
    if diff:
        # which option does the tool seem to ignore?  (diagnosis only)
        culprit = None
        for key in ("alpha", "beta", "delta", "precision", "n_samples", "cat_dissim", "mathet"):
            if o.get(key) is not None and o.get(key) != DEFAULTS[key]:
                try:
                    if same_results(got, api_results(case, paths, override={key: DEFAULTS[key]})) is None:
                        culprit = key
                        break
                except Exception:
                    pass
        key = f"cli-differs-from-api:{case['output']}" + (f":option-{culprit}-ignored" if culprit else "")
        ctx.fail(key, dict(detail, difference=diff, cli=got, api=api), monitor="M-CLI")
        return
    # did the probed option matter on this input?
    probe = case.get("probe")
    if probe and o.get(probe) is not None and o.get(probe) != DEFAULTS[probe]:
        ctx.count("M-CLI-OPTION-EFFECT")
        try:
            base = api_results(case, paths, override={probe: DEFAULTS[probe]})
            ctx.observe(f"option_effect[{probe}]", "differs" if same_results(base, api) else "same")
        except Exception:
            ctx.observe(f"option_effect[{probe}]", "default-raises")


# --------------------------------------------------------------------------------------------- generation
def gen_case(ctx):
    rng = ctx.rng
    cat_dissim = rng.choice([None, "absolute", "numerical", "levenshtein", "numerical", "levenshtein"])
    labels = rng.choice([cases.LABELS_NUM, NUMERIC_FORMS]) if cat_dissim == "numerical" else rng.choice([cases.LABELS_WORDS, cases.LABELS_SMALL])
    fmt = rng.choice(["csv", "csv", "csv", "rttm"])
    files = []
    for _ in range(rng.choice([1, 1, 1, 2, 2])):
        n = rng.randint(2, 3)
        cs = cases.gen_continuum(rng, n_annot=n, max_units=5, allow_empty=False, labels=labels,
                                 family=rng.choice(["grid", "dyadic", "touching", "longoverlap"]))
        if fmt == "rttm":   # non-negative times with few decimals
            cs = cases.gen_continuum(rng, n_annot=n, max_units=5, allow_empty=False, labels=labels, family=rng.choice(["grid", "dyadic"]))
            # RTTM is blank-separated: a speaker field cannot hold a space (such a file is not the continuum's RTTM form)
            cs["ann"] = {a.replace(" ", "_"): us for a, us in cs["ann"].items()}
        if fmt == "csv" and rng.random() < 0.25:
            # fields that start with a blank (csv leaves them unquoted): the tool must read the file exactly as the API does
            cs["ann"] = {(" " + a if rng.random() < 0.5 else a): [[u[0], u[1], (" " + u[2]) if rng.random() < 0.5 else u[2]] for u in us]
                         for a, us in cs["ann"].items()}
            if cat_dissim == "numerical":
                cs["ann"] = {a: [[u[0], u[1], u[2].strip()] for u in us] for a, us in cs["ann"].items()}
        files.append({"ann": cs["ann"]})
    if len(files) == 2 and rng.random() < 0.6:
        # the second file only uses a strict "inner" subset of the first file's categories (smaller spread / fewer names)
        used = sorted({u[2] for us in files[0]["ann"].values() for u in us}, key=lambda l: (len(l), l))
        if len(used) >= 3:
            inner = used[1:-1]
            files[1] = {"ann": {a: [[u[0], u[1], rng.choice(inner)] for u in us] for a, us in files[1]["ann"].items()}}
    options = {"seed": rng.choice([0, 0, 1, rng.randrange(1, 100000), rng.randrange(1, 100000), rng.randrange(1, 100000)])
               if rng.random() < 0.93 else None,
               "alpha": rng.choice([None, 0.5, 2, 3, 0]), "beta": rng.choice([None, 0.5, 2, 0]),
               "delta": rng.choice([None, 0.5, 2, 0.1]), "precision": rng.choice([0.1, 0.2, 0.2, 0.5, 0.5, 0.3, None if rng.random() < 0.3 else 0.4]),
               "n_samples": rng.choice([None, 3, 5, 10, 20]) if rng.random() < 0.9 else None,
               "cat_dissim": cat_dissim, "gamma_cat": rng.random() < 0.6, "gamma_k": rng.random() < 0.6,
               "mathet": rng.random() < 0.4, "explicit_separator": rng.random() < 0.3}
    if options["alpha"] == 0 and options["beta"] == 0:
        options["beta"] = None
    if options["n_samples"] is None:
        options["precision"] = options["precision"] or 0.5
    set_opts = [k for k in ("alpha", "beta", "delta", "precision", "n_samples", "cat_dissim", "mathet")
                if options.get(k) is not None and options.get(k) != DEFAULTS[k]]
    return {"files": files, "format": fmt, "separator": rng.choice([",", ",", ";", "|"]) if fmt == "csv" else ",",
            "options": options, "output": rng.choice(["print", "csv", "json"]),
            "probe": rng.choice(set_opts) if (set_opts and rng.random() < 0.6) else None}


# numerical categories in every form float() reads (signed, exponent, no leading digit), not just plain digits
NUMERIC_FORMS = ["1", "2.5", "-2", "+1", "1e1", ".5", "10", "3", "-0.5"]
_needed_readings = {}


def targeted_cases(ctx):
    """A few option / input combinations every worker runs first (each is a boundary the random generator reaches rarely):
    two files whose category sets are nested, with every categorical dissimilarity; --seed 0; a single-annotator-pair file."""
    rng = ctx.rng
    out = []
    for cat_dissim, labels in (("numerical", ["1", "2", "3", "4", "5"]), ("levenshtein", ["N", "NP", "V", "VP", "Det"]),
                               ("absolute", ["a", "b", "c", "d", "e"])):
        wide = cases.gen_continuum(rng, n_annot=2, sizes=[5, 5], family="grid", labels=labels, allow_empty=False)
        for a in wide["ann"]:
            for k, u in enumerate(wide["ann"][a]):
                u[2] = labels[k % len(labels)]          # the first file uses every category
        narrow = cases.gen_continuum(rng, n_annot=2, sizes=[4, 4], family="grid", labels=labels[1:-1], allow_empty=False)
        out.append({"files": [{"ann": wide["ann"]}, {"ann": narrow["ann"]}], "format": "csv", "separator": ",",
                    "options": {"seed": rng.choice([0, 7, 4772]), "alpha": rng.choice([None, 2]), "beta": None, "delta": None,
                                "precision": 0.5, "n_samples": 5, "cat_dissim": cat_dissim, "gamma_cat": True, "gamma_k": True,
                                "mathet": rng.random() < 0.5, "explicit_separator": False},
                    "output": rng.choice(["print", "csv", "json"]), "probe": "cat_dissim" if cat_dissim != "absolute" else None})
    # numerical categories written with a sign / an exponent / without a leading digit
    forms = ["-2", "+1", "1e1", ".5", "3"]
    c0 = cases.gen_continuum(rng, n_annot=2, sizes=[5, 5], family="grid", labels=forms, allow_empty=False)
    for a in c0["ann"]:
        for k, u in enumerate(c0["ann"][a]):
            u[2] = forms[(k + (1 if a == "bob" else 0)) % len(forms)]
    out.append({"files": [{"ann": c0["ann"]}], "format": "csv", "separator": ",",
                "options": {"seed": rng.choice([3, 11]), "alpha": None, "beta": None, "delta": None, "precision": 0.5, "n_samples": 5,
                            "cat_dissim": "numerical", "gamma_cat": True, "gamma_k": True, "mathet": False, "explicit_separator": False},
                "output": rng.choice(["print", "json"]), "probe": "cat_dissim"})
    # a file large enough for the fast mode to work with a finite window, with and without -m: whichever reading of "the API
    # for the same options" the tool follows (fast or exact mode), it must be the same one for both option sets
    big = cases.gen_continuum(rng, n_annot=4, sizes=[16] * 4, family="grid", labels=cases.LABELS_SMALL, allow_empty=False,
                              names=cases.ANNOTATOR_NAMES[:4])
    sd = rng.choice([5, 12, 99])
    for mathet in (False, True):
        out.append({"files": [{"ann": big["ann"]}], "format": "csv", "separator": ",", "compare_readings": True,
                    "options": {"seed": sd, "alpha": None, "beta": None, "delta": None, "precision": 0.9, "n_samples": 3,
                                "cat_dissim": None, "gamma_cat": False, "gamma_k": False, "mathet": mathet, "explicit_separator": False},
                    "output": "json", "probe": None})
    # the same pair on a file with more than 30 units per annotator: one reading for every file size
    big2 = cases.gen_continuum(rng, n_annot=4, sizes=[32] * 4, family="grid", labels=cases.LABELS_SMALL, allow_empty=False,
                               names=cases.ANNOTATOR_NAMES[:4])
    out.append({"files": [{"ann": big2["ann"]}], "format": "csv", "separator": ",", "compare_readings": True,
                "options": {"seed": sd, "alpha": None, "beta": None, "delta": None, "precision": 0.9, "n_samples": 3,
                            "cat_dissim": None, "gamma_cat": False, "gamma_k": False, "mathet": False, "explicit_separator": False},
                "output": "json", "probe": None})
    # several input files, one of them (not the last) unreadable: whatever the tool reports, it reports under the right file name
    # (the equivalent API run stops at that file)
    small = [cases.gen_continuum(rng, n_annot=2, sizes=[4, 4], family="grid", labels=cases.LABELS_SMALL, allow_empty=False) for _ in range(3)]
    for bad in (1, 0):
        out.append({"files": [dict({"ann": c_["ann"]}, **({"unreadable": "header"} if k == bad else {})) for k, c_ in enumerate(small)],
                    "format": "csv", "separator": ",",
                    "options": {"seed": rng.choice([1, 8]), "alpha": None, "beta": None, "delta": None, "precision": 0.5, "n_samples": 4,
                                "cat_dissim": None, "gamma_cat": True, "gamma_k": False, "mathet": False, "explicit_separator": False},
                    "output": rng.choice(["print", "csv", "json"]), "probe": None})
    return out


def run(ctx):
    for case in targeted_cases(ctx):
        ctx.begin_case(case)
        ctx.observe("driver", "in-process")
        ctx.observe("output", case["output"])
        ctx.observe("cat_dissim", "targeted:" + str(case["options"]["cat_dissim"]))
        check_case(ctx, case)
    n_sub = 0
    for i in range(ctx.scale(36, 300)):
        if ctx.out_of_time():
            break
        case = gen_case(ctx)
        if ctx.tier == "thorough" and i % 40 == 7 and n_sub < 6:
            case["subprocess"] = True
            n_sub += 1
        ctx.begin_case(case, nontrivial=case["options"]["seed"] is not None)
        ctx.observe("output", case["output"])
        ctx.observe("format", case["format"])
        ctx.observe("driver", "subprocess" if case.get("subprocess") else "in-process")
        ctx.observe("cat_dissim", str(case["options"]["cat_dissim"]))
        for k in ("alpha", "beta", "delta", "precision", "n_samples", "mathet", "gamma_cat", "gamma_k"):
            if case["options"].get(k) not in (None, False):
                ctx.observe("options_used", k)
        check_case(ctx, case)
