"""Shared workload pieces of the alignment properties (C01, C02, C08, C10, C11)."""
import contextlib
import itertools

import numpy as np

from .. import cases, monitors, oracles

ORACLE_MAX_UNITS = {2: 9, 3: 9, 4: 5, 5: 3}
_state = {}


def setup(ctx):
    if "spy" not in _state:
        _state["spy"] = monitors.SolverSpy().install()
        _state["pool"] = cases.DissimPool()
        # a stalled fast alignment becomes an exception (logical progress), never a hang of the worker
        monitors.install_progress_monitor(limit=3)
    return _state["spy"], _state["pool"]


def std_plan(tier, quick_shards=4, thorough_shards=16, quick_budget=70, thorough_budget=700, extra_params=None):
    n = quick_shards if tier == "quick" else thorough_shards
    shards = []
    for i in range(n):
        params = {"time_budget": quick_budget if tier == "quick" else thorough_budget}
        params.update(extra_params or {})
        shards.append({"env": {"NUMBA_BOUNDSCHECK": "1" if i % 2 else "0"}, "params": params})
    return {"shards": shards, "timeout": (quick_budget + 300) if tier == "quick" else (thorough_budget + 1500)}


def call_alignment(continuum, dissim, backend, kind, spy):
    """Run get_best_alignment / get_best_soft_alignment under a solver configuration.
    backend: 'cbc' (cylp usable), 'glpk' (cylp not importable), 'cbcfail' (CBC raises SolverError)."""
    fn = continuum.get_best_alignment if kind == "best" else continuum.get_best_soft_alignment
    spy.take()
    if backend == "glpk":
        with monitors.cylp_masked():
            res = fn(dissim)
    elif backend == "cbcfail":
        spy.fail_cbc = True
        try:
            res = fn(dissim)
        finally:
            spy.fail_cbc = False
    elif backend == "allfail":
        spy.fail_all = True
        try:
            res = fn(dissim)
        finally:
            spy.fail_all = False
    else:
        res = fn(dissim)
    return res, spy.take()


@contextlib.contextmanager
def solver_config(spy, backend):
    """'cbc' (nothing changed), 'glpk' (cylp not importable), 'cbcfail' (every CBC call raises SolverError),
    'cbcfail2' / 'cbcfail3' (every 2nd / 3rd CBC call raises: an intermittent fault, e.g. in some windows of a fast alignment)."""
    if backend == "glpk":
        with monitors.cylp_masked():
            yield
    elif backend == "allfail":
        spy.fail_all = True
        try:
            yield
        finally:
            spy.fail_all = False
    elif backend and backend.startswith("onejobfails"):
        # 'onejobfails3': the third alignment job of the computation finds no usable solver (both CBC and GLPK fail for it)
        spy.fail_job, spy.job_calls, spy._doomed_thread = int(backend[len("onejobfails"):]), 0, None
        try:
            yield
        finally:
            spy.fail_job = None
    elif backend and backend.startswith("cbcfail"):
        spy.fail_cbc = True if backend == "cbcfail" else int(backend[len("cbcfail"):])
        spy.cbc_calls = 0
        try:
            yield
        finally:
            spy.fail_cbc = False
    else:
        yield


def oracle_tables(cspec, dissim):
    arrays = oracles.unit_arrays(cspec, dissim)
    sizes = [len(a) for a in arrays]
    mats = oracles.pair_matrices(arrays, dissim.d_mat, dissim.delta_empty)
    tensor = oracles.tuple_cost_tensor(mats, sizes)
    return arrays, sizes, mats, tensor


def alignment_cost_from_tensor(cspec, alignment, tensor, sizes):
    """Disorder of a returned alignment recomputed from its units with the oracle's own pair-mean table."""
    names = sorted(cspec["ann"].keys())
    index = {}
    for a in names:
        us = sorted(cspec["ann"][a], key=cases.unit_key)
        index[a] = {tuple(u): i for i, u in enumerate(us)}
    total = 0.0
    for ua in alignment.unitary_alignments:
        slot = dict((a, u) for a, u in ua.n_tuple)
        idx = []
        for k, a in enumerate(names):
            u = slot.get(a)
            if u is None:
                idx.append(sizes[k])
            else:
                idx.append(index[a][(u.segment.start, u.segment.end, u.annotation)])
        total += float(tensor[tuple(idx)])
    return total / (sum(sizes) / len(sizes))


def gen_oracle_case(ctx, dspecs, backends=("cbc", "glpk"), families=None):
    rng = ctx.rng
    dspec = rng.choice(dspecs)
    labels = cases.dissim_labels(dspec)
    n = rng.choice([2, 2, 3, 3, 4, 5])
    mx = ORACLE_MAX_UNITS[n]
    fam = rng.choice(families) if families else (rng.choice(["mixeddur", "longoverlap", "dense", "dense"]) if rng.random() < 0.3 else None)
    if families is None and rng.random() < 0.12:
        # every annotator has exactly the same list of segments and only the labels disagree (a categorisation task)
        n = rng.choice([2, 3, 3, 4])
        k = rng.randint(2, {2: 7, 3: 4, 4: 3}[n])
        base = cases.gen_segments(rng, rng.choice(["touching", "grid", "dyadic"]), k)
        base = sorted(set(base))
        labs = labels or cases.LABELS_SMALL
        cspec = {"ann": {a: [[s_, e_, rng.choice(labs)] for (s_, e_) in base] for a in cases.ANNOTATOR_NAMES[:n]},
                 "family": "same-segmentation"}
        return {"continuum": cspec, "dissim": dspec, "backend": rng.choice(list(backends))}
    if fam == "dense":      # many overlapping units, >= 3 annotators: the integer programme needs branching
        n = rng.choice([3, 4, 4, 5])
        cspec = cases.gen_continuum(rng, n_annot=n, sizes=[ORACLE_MAX_UNITS[n] if n > 3 else 8] * n,
                                    labels=labels or cases.LABELS_SMALL, family="dense")
    else:
        # unlabelled units (next to labelled ones) in a quarter of the cases whose dissimilarity needs no label
        p_none = rng.choice([0.3, 0.6, 1.0]) if (labels is None and rng.random() < 0.25) else 0.0
        cspec = cases.gen_continuum(rng, n_annot=n, max_units=mx if rng.random() < 0.6 else rng.randint(1, mx),
                                    labels=(labels or rng.choice([cases.LABELS_SMALL, ["a"], cases.LABELS_WORDS[:5]])), min_total=2, family=fam, p_none=p_none)
    return {"continuum": cspec, "dissim": dspec, "backend": rng.choice(list(backends))}


def observe_case(ctx, case):
    cs = case["continuum"]
    ctx.observe("annotators", len(cs["ann"]))
    ctx.observe("units_total", cases.spec_num_units(cs))
    ctx.observe("family", cs.get("family"))
    ctx.observe("dissim", case["dissim"]["kind"])
    if "backend" in case:
        ctx.observe("backend", case["backend"])
    d = case["dissim"]
    ctx.observe("delta", d.get("delta"))
    if d["kind"] == "combined":
        ctx.observe("alpha_beta", f"{d['alpha']}/{d['beta']}")


# ------------------------------------------------------------------ exhaustive bounded grids (thorough tier)
GRID_SEGMENTS = [(0.0, 1.0), (0.0, 2.0), (0.0, 3.0), (1.0, 2.0), (1.0, 3.0), (2.0, 3.0)]


def grid_unit_sets(labels, max_units):
    units = [(s, e, l) for (s, e) in GRID_SEGMENTS for l in labels]
    out = []
    for k in range(max_units + 1):
        out.extend(itertools.combinations(units, k))
    return out


def exhaustive_grid_cases(which):
    """'2x3': two annotators, <= 3 units each from 6 segments x 2 labels (unordered pairs of unit sets);
       '3x2': three annotators, <= 2 units each from 6 segments x 1 label."""
    if which == "2x3":
        sets = grid_unit_sets(["a", "b"], 3)
        for i, A in enumerate(sets):
            for B in sets[i:]:
                if len(A) + len(B) >= 1:
                    yield {"ann": {"alex": [list(u) for u in A], "bob": [list(u) for u in B]}, "family": "grid-exh"}
    elif which == "2x2":
        sets = grid_unit_sets(["a", "b"], 2)
        for i, A in enumerate(sets):
            for B in sets[i:]:
                if len(A) + len(B) >= 1:
                    yield {"ann": {"alex": [list(u) for u in A], "bob": [list(u) for u in B]}, "family": "grid-exh"}
    elif which == "3x2":
        sets = grid_unit_sets(["a"], 2)
        for A in sets:
            for B in sets:
                for C in sets:
                    if len(A) + len(B) + len(C) >= 1:
                        yield {"ann": {"alex": [list(u) for u in A], "bob": [list(u) for u in B],
                                       "carl": [list(u) for u in C]}, "family": "grid-exh"}
    else:
        raise ValueError(which)


# ------------------------------------------------------------------ editing sessions on ONE continuum object
def gen_edit_ops(rng, cspec, labels, n_ops):
    """Random edits applied between two computations on the same continuum object (and the same dissimilarity
    object): the kind of history in which a stale cache or a forgotten invalidation shows."""
    ops = []
    names = sorted(cspec["ann"].keys())
    extra = [n for n in ["zoe", "yan", "abe"] if n not in names]
    for _ in range(n_ops):
        r = rng.random()
        if r < 0.25 and extra:
            ops.append(["add_annotator", extra.pop(0)])
        elif r < 0.4 and extra:
            ops.append(["merge_empty_annotator", extra.pop(0)])
        elif r < 0.65:
            s = float(rng.randrange(0, 30))
            ops.append(["add", rng.choice(names), s, s + float(rng.randint(1, 6)), rng.choice(labels)])
        elif r < 0.75:
            ops.append(["remove_random", rng.randrange(10 ** 6)])
        elif r < 0.8:
            # a removal that is refused (the annotator does not hold that unit): the caller catches the documented KeyError
            ops.append(["remove_absent", rng.choice(names), 1234.5 + rng.randrange(100), rng.choice(labels)])
        elif r < 0.9:
            # a unit far away from everything, added and taken out again (a mistake corrected): the continuum's units are
            # what they were, only its bounds remember the outlier
            s = float(rng.choice([-2 ** 27, 2 ** 27, -2 ** 25, 2 ** 30]))
            ops.append(["touch_far", rng.choice(names), s, s + 64.0 * 2 ** 7, rng.choice(labels)])
        else:
            ops.append(["reset_bounds"])
    return ops


def apply_edit(continuum, op):
    from pyannote.core import Segment
    from pygamma_agreement import Continuum
    kind = op[0]
    if kind == "add_annotator":
        continuum.add_annotator(op[1])
    elif kind == "merge_empty_annotator":
        other = Continuum()
        other.add_annotator(op[1])
        continuum.merge(other, in_place=True)
    elif kind == "add":
        continuum.add(op[1], Segment(op[2], op[3]), op[4])
    elif kind == "remove_random":
        units = [(a, u) for a, u in continuum]
        if len(units) > 1:
            a, u = units[op[1] % len(units)]
            continuum.remove(a, u)
    elif kind == "remove_absent":
        from pygamma_agreement.continuum import Unit
        try:
            continuum.remove(op[1], Unit(Segment(op[2], op[2] + 1.0), op[3]))
        except (KeyError, ValueError):
            pass
    elif kind == "touch_far":
        continuum.add(op[1], Segment(op[2], op[3]), op[4])
        continuum.remove(op[1], [u for u in continuum[op[1]] if u.segment == Segment(op[2], op[3])][0])
    elif kind == "reset_bounds":
        continuum.reset_bounds()


_corpus = {}


def hard_mip_cases(ctx, which="partition", limit=None, min_gap=2e-3):
    """Continua whose alignment programme has an integrality gap (LP relaxation strictly below the integer optimum,
    found off-line by selftest/mine_hard_mip.py with scipy/HiGHS on random dense / long-overlap / mixed-duration /
    nested continua: about 1 random continuum in 50).  A MIP solver has to branch on them, so an early stop, a relative
    gap, a rounding heuristic taken for the answer or a secondary criterion shows as a dearer alignment here, where it
    never does on instances whose relaxation is integral.  The corpus only selects *inputs*; every case is judged at run
    time by the same oracles as any other case.  Cases are dealt round-robin to the shards."""
    import json
    import os
    if "cases" not in _corpus:
        path = os.path.join(os.path.dirname(os.path.dirname(os.path.abspath(__file__))), "corpus", "hard_mip.json")
        with open(path) as f:
            _corpus["cases"] = json.load(f)["cases"]
    sel = [c for c in _corpus["cases"] if c["gap"][which]["rel_gap"] >= min_gap]
    # corpus order is the (random) order of discovery; the run's seed rotates it, so that seed sweeps go through all of it
    k = (int(getattr(ctx, "seed", 0)) * 37) % max(1, len(sel))
    sel = sel[k:] + sel[:k]
    mine = [c for i, c in enumerate(sel) if i % ctx.nshards == ctx.shard]
    if limit is not None:
        mine = mine[:limit]
    return [{"continuum": dict(c["continuum"], family="integrality-gap"), "dissim": c["dissim"]} for c in mine]


def near_tie_cases(rng, ks, u=8.0):
    """3-annotator continua in which two annotators agree on a unit and the third places the same unit at a distance x
    swept through the point where "one unitary alignment of three" and "a pair plus a singleton" cost the same with the
    positional dissimilarity (2*(2x/2u)^2 = 5 delta_empty, x = u*sqrt(2.5): measured on the unchanged library), in steps
    of 1/256.  On either side of the tie the cheaper alignment is the only optimum."""
    out = []
    names3 = cases.ANNOTATOR_NAMES[:3]
    for k in ks:
        x = round(u * 2.5 ** 0.5 * 256) / 256 + k / 256.0
        order = rng.sample(names3, 3)
        ann = {order[0]: [[0.0, u, "a"], [40.0, 44.0, "b"]], order[1]: [[0.0, u, "a"], [40.0, 44.5, "b"]],
               order[2]: [[x, x + u, "a"], [40.5, 44.0, "b"]]}
        out.append({"ann": {a: ann[a] for a in names3}, "family": "near-tie"})
    return out


def concurrent_calls(thunks, switch_interval=1e-5, barrier=True):
    """Runs the thunks in as many user threads at once (a barrier releases them together, the interpreter's switch
    interval is shortened so that hand-offs fall inside the library's Python code).  Returns [(result, exception)]."""
    import sys
    import threading
    out = [None] * len(thunks)
    bar = threading.Barrier(len(thunks)) if barrier else None

    def run(i):
        try:
            if bar is not None:
                bar.wait(timeout=60)
            out[i] = (thunks[i](), None)
        except BaseException as e:      # reported by the caller
            out[i] = (None, e)
    old = sys.getswitchinterval()
    sys.setswitchinterval(switch_interval)
    try:
        ts = [threading.Thread(target=run, args=(i,), daemon=True) for i in range(len(thunks))]
        for t in ts:
            t.start()
        for t in ts:
            t.join(600)
    finally:
        sys.setswitchinterval(old)
    return [o if o is not None else (None, TimeoutError("thread did not finish")) for o in out]


CONCURRENT_DISSIMS = [{"kind": "positional", "delta": 1.0}, {"kind": "positional", "delta": 0.1},
                      {"kind": "combined", "alpha": 1.0, "beta": 1.0, "delta": 2.0, "pos": None, "cat": None},
                      {"kind": "absolute", "delta": 1.0},
                      {"kind": "combined", "alpha": 3.0, "beta": 0.5, "delta": 0.5, "pos": None, "cat": None},
                      # a declared category set larger than the continuum's: labels get other indices than with the label-free classes
                      {"kind": "precomputed", "cats": ["A0", "a", "b", "b2", "c", "d"], "delta": 1.0,
                       "matrix": [[0.0 if i == j else (0.25 + 0.125 * abs(i - j)) for j in range(6)] for i in range(6)]},
                      {"kind": "combined", "alpha": 1.0, "beta": 2.0, "delta": 1.0, "pos": None,
                       "cat": {"kind": "ordinal", "cats": ["c", "a", "zz", "b", "A"], "p": None, "delta": 1.0}}]


def gen_concurrent_case(rng, kind):
    """One continuum OBJECT aligned by several user threads at once, each with another dissimilarity (so that the
    candidate tables differ): nothing in the library may pass per-call data through the shared objects."""
    n = rng.choice([2, 3, 3, 4])
    cs = cases.gen_continuum(rng, n_annot=n, sizes=[rng.randint(2, 6 if n < 4 else 4) for _ in range(n)],
                             labels=cases.LABELS_SMALL, family=rng.choice(["grid", "dense", "longoverlap", "dyadic", "mixeddur"]))
    case = {"continuum": cs, "concurrent": kind, "dissims": rng.sample(CONCURRENT_DISSIMS, 4), "repeat": 2}
    if kind == "fast":
        case["window"] = rng.randint(1, 3)
    return case


def check_concurrent_case(ctx, case, monitor):
    """Sequential reference first (same objects), then the same calls from concurrent threads; every concurrent result
    must be a partition (cover) of the continuum and carry the disorder of the sequential call."""
    _, pool = setup(ctx)
    kind = case["concurrent"]
    continuum = cases.build_continuum(case["continuum"])
    dissims = [pool.get(d) for d in case["dissims"]]

    def call(d):
        if kind == "best":
            return continuum.get_best_alignment(d)
        if kind == "soft":
            return continuum.get_best_soft_alignment(d)
        return continuum.get_fast_alignment(d, case["window"])
    try:
        ref = [float(call(d).disorder) for d in dissims]
    except Exception as e:
        ctx.fail_exc(f"concurrent:{kind}:sequential-reference-raises:{type(e).__name__}", e, monitor=monitor)
        return
    thunks = [(lambda d=d: call(d)) for d in dissims] * int(case.get("repeat", 2))
    results = concurrent_calls(thunks)
    for k, (res, exc) in enumerate(results):
        ctx.count(monitor)
        if exc is not None:
            ctx.fail_exc(f"concurrent:{kind}:raises:{type(exc).__name__}", exc, monitor=monitor)
            continue
        pr = monitors.check_partition(continuum, res, cover=(kind == "soft"))
        if pr:
            ctx.fail(f"concurrent:{kind}:not-a-{'cover' if kind == 'soft' else 'partition'}",
                     {"problems": pr[:6], "thread": k, "dissim": case["dissims"][k % len(dissims)]}, monitor=monitor)
            continue
        if not oracles.close(float(res.disorder), ref[k % len(dissims)]):
            ctx.fail(f"concurrent:{kind}:disorder-differs-from-the-sequential-call",
                     {"concurrent": float(res.disorder), "sequential": ref[k % len(dissims)], "thread": k,
                      "dissim": case["dissims"][k % len(dissims)]}, monitor=monitor)


def gen_concurrent_candidates_case(rng):
    """ONE label-free dissimilarity object asked for the candidate tables of several continua at once, from as many user
    threads; the continua carry different category sets (so that a label has another index in each)."""
    dspec = rng.choice([{"kind": "absolute", "delta": 1.0}, {"kind": "combined", "alpha": 1.0, "beta": 1.0, "delta": 1.0, "pos": None, "cat": None},
                        {"kind": "combined", "alpha": 0.5, "beta": 3.0, "delta": 2.0, "pos": None, "cat": None}])
    label_sets = [["a", "b", "c"], ["b", "c", "d", "e"], ["c"], ["A", "a", "b", "z", "zz"], ["x", "y"], ["b", "x"]]
    continua = []
    for k in range(4):
        n = rng.choice([2, 2, 3])
        cs = cases.gen_continuum(rng, n_annot=n, sizes=[rng.randint(2, 5) for _ in range(n)], labels=label_sets[(k + rng.randrange(6)) % 6],
                                 family=rng.choice(["grid", "dyadic", "touching", "identical"]))
        continua.append(cs)
    return {"concurrent": "candidates", "dissim": dspec, "continua": continua, "repeat": 4}


def check_concurrent_candidates_case(ctx, case, monitor):
    _, pool = setup(ctx)
    dissim = pool.get(case["dissim"])
    conts = [cases.build_continuum(cs) for cs in case["continua"]]

    def table(c):
        dis, tup = dissim.valid_alignments(c)
        return {tuple(int(x) for x in t): float(v) for t, v in zip(tup, dis)}
    try:
        ref = [table(c) for c in conts]
    except Exception as e:
        ctx.fail_exc(f"concurrent:candidates:sequential-reference-raises:{type(e).__name__}", e, monitor=monitor)
        return
    thunks = [(lambda c=c: [table(c) for _ in range(int(case.get("repeat", 4)))]) for c in conts]
    for k, (res, exc) in enumerate(concurrent_calls(thunks)):
        ctx.count(monitor)
        if exc is not None:
            ctx.fail_exc(f"concurrent:candidates:raises:{type(exc).__name__}", exc, monitor=monitor)
            continue
        for got in res:
            if set(got) != set(ref[k]):
                ctx.fail("concurrent:candidates:set-differs-from-the-same-call-alone",
                         {"thread": k, "missing": sorted(set(ref[k]) - set(got))[:4], "unexpected": sorted(set(got) - set(ref[k]))[:4]}, monitor=monitor)
                break
            bad = [(t, got[t], ref[k][t]) for t in got if not oracles.close(got[t], ref[k][t])]
            if bad:
                ctx.fail("concurrent:candidates:disorder-differs-from-the-same-call-alone", {"thread": k, "examples": bad[:4]}, monitor=monitor)
                break


def same_parameters_other_measure(rng, dspec):
    """A dissimilarity of the same class, delta_empty, categories (and alpha, beta) that measures differently: another matrix
    for a precomputed one, other positions for an ordinal one.  None for the classes that have no such parameter."""
    import copy
    d2 = copy.deepcopy(dspec)
    comp = d2.get("cat") if d2["kind"] == "combined" else d2
    if not comp:
        return None
    if comp["kind"] == "precomputed" and len(comp["cats"]) >= 2:
        k = len(comp["cats"])
        comp["matrix"] = [[0.0 if i == j else round(0.1 + 0.8 * rng.random(), 3) for j in range(k)] for i in range(k)]
        for i in range(k):
            for j in range(i):
                comp["matrix"][i][j] = comp["matrix"][j][i]
        comp.pop("matrix_dtype", None)
        comp.pop("caller_edits_matrix", None)
        return d2
    if comp["kind"] == "ordinal" and len(comp["cats"]) >= 3:
        p = list(range(len(comp["cats"])))
        rng.shuffle(p)
        comp["p"] = [float(x * x) for x in p]
        comp.pop("p_dtype", None)
        return d2
    return None
