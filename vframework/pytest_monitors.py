"""pytest plugin (harness side): runs the repository's own test suite with the passive monitors switched on.

    PYGAMMA_VERIF_MONITORS=1 VERIF_SUITE_OUT=<dir> VERIF_SUITE_MONITORS=part,dis,inv,prog \
        PYTHONPATH=/verif python -m pytest -p vframework.pytest_monitors ...

With the guard variable unset the plugin does nothing.  The monitors record and never raise, so the suite's own
verdicts are unaffected; what they observed goes to one JSON file per (xdist) process in VERIF_SUITE_OUT."""
import json
import os
import sys


def _enabled():
    return os.environ.get("PYGAMMA_VERIF_MONITORS") == "1"


def pytest_configure(config):
    if not _enabled():
        return
    here = os.path.dirname(os.path.dirname(os.path.abspath(__file__)))
    if here not in sys.path:
        sys.path.insert(0, here)
    from vframework import boot
    boot.ensure_deps()
    from vframework import ctx as ctxmod, monitors
    out = os.environ.get("VERIF_SUITE_OUT") or "."
    os.makedirs(out, exist_ok=True)
    outdir = os.path.join(out, f"proc-{os.getpid()}")
    os.makedirs(outdir, exist_ok=True)
    ctx = ctxmod.Ctx("suite", "thorough", 0, 0, 1, {"current_every": 0}, outdir)
    ctxmod.CTX = ctx
    which = set((os.environ.get("VERIF_SUITE_MONITORS") or "part,dis,inv,prog").split(","))
    import pygamma_agreement  # noqa: F401  (monitors attach to the package the suite itself imports)
    ctx.note("package_file", pygamma_agreement.__file__)
    if "prog" in which:
        monitors.install_progress_monitor(limit=3)
    if "part" in which or "dis" in which:
        # the suite's inputs are arbitrary doubles: pair costs are taken from the compiled kernel (float32 model)
        monitors.install_alignment_postconditions(part="part" in which, dis="dis" in which, dis_via="d_mat")
    if "inv" in which:
        monitors.install_continuum_invariant("M-INV", stride=int(os.environ.get("VERIF_SUITE_INV_STRIDE", "97")))
    config._verif_ctx = ctx


def pytest_runtest_setup(item):
    if _enabled():
        from vframework import ctx as ctxmod
        if ctxmod.CTX is not None:
            ctxmod.CTX.current = {"suite_test": item.nodeid}
            ctxmod.CTX.evaluations += 1
            ctxmod.CTX.hashes.add(item.nodeid)


def pytest_unconfigure(config):
    ctx = getattr(config, "_verif_ctx", None)
    if ctx is not None:
        ctx.finish("done")
