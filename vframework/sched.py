"""M-EXEC: an instrumented executor that replaces the name `ThreadPoolExecutor` inside pygamma_agreement.continuum.

It implements the small interface the library uses (context manager, submit(fn, *args) -> future with .result())
and lets the harness choose the schedule at job granularity:

  policy 'fifo'      in-order, free running with `workers` threads (reference when workers == 1)
  policy 'lifo'      jobs held until the submitter blocks on a result, then started in reverse submission order
  policy 'first-last' the first job submitted (the best-alignment job) is started last
  policy 'random'    held, then started in a seeded random permutation
  policy 'jitter'    free running, each job sleeps a seeded 0-5 ms before and after running

Every run records the submission order, the start and finish permutations and the maximum number of jobs that
were running at the same time."""
import concurrent.futures as cf
import random
import threading
import time


class Config:
    def __init__(self, policy="fifo", workers=1, seed=0):
        self.policy, self.workers, self.seed = policy, workers, seed


CURRENT = Config()
RECORDS = []   # one dict per executor instance


class _Future(cf.Future):
    def __init__(self, owner):
        super().__init__()
        self._owner = owner

    def result(self, timeout=None):
        self._owner._release()          # the submitter is about to block: held jobs may start now
        return super().result(timeout)


class ControlledExecutor:
    def __init__(self, max_workers=None, **kw):
        self.cfg = CURRENT
        self.n = max(1, int(self.cfg.workers or max_workers or 1))
        self.rng = random.Random(self.cfg.seed)
        self.lock = threading.Lock()
        self.cv = threading.Condition(self.lock)
        self.queue = []         # released jobs, in start order
        self.held = []          # jobs waiting for the release
        self.seq = 0
        self.running = 0
        self.threads = []
        self.closed = False
        self.rec = {"policy": self.cfg.policy, "workers": self.n, "submitted": 0, "start": [], "finish": [],
                    "max_overlap": 0, "threads": set()}
        RECORDS.append(self.rec)

    # context manager -------------------------------------------------------------------------------
    def __enter__(self):
        return self

    def __exit__(self, *exc):
        self.shutdown()
        return False

    def shutdown(self, wait=True, **kw):
        self._release()
        with self.cv:
            self.closed = True
            self.cv.notify_all()
        for t in self.threads:
            t.join()

    # submission ------------------------------------------------------------------------------------
    def submit(self, fn, *args, **kwargs):
        fut = _Future(self)
        with self.cv:
            item = (self.seq, fn, args, kwargs, fut)
            self.seq += 1
            self.rec["submitted"] += 1
            if self.cfg.policy in ("fifo", "jitter"):
                self.queue.append(item)
                self._ensure_threads()
                self.cv.notify()
            else:
                self.held.append(item)
        return fut

    def _release(self):
        with self.cv:
            if not self.held:
                return
            items, self.held = self.held, []
            p = self.cfg.policy
            if p == "lifo":
                items.reverse()
            elif p == "first-last":
                items = items[1:] + items[:1]
            elif p == "random":
                self.rng.shuffle(items)
            self.queue.extend(items)
            self._ensure_threads()
            self.cv.notify_all()

    def _ensure_threads(self):
        while len(self.threads) < self.n:
            t = threading.Thread(target=self._worker, daemon=True)
            self.threads.append(t)
            t.start()

    def _worker(self):
        while True:
            with self.cv:
                while not self.queue and not self.closed:
                    self.cv.wait()
                if not self.queue:
                    return
                seq, fn, args, kwargs, fut = self.queue.pop(0)
                self.running += 1
                self.rec["start"].append(seq)
                self.rec["max_overlap"] = max(self.rec["max_overlap"], self.running)
                self.rec["threads"].add(threading.get_ident())
                jitter = (self.rng.random() * 0.005, self.rng.random() * 0.005) if self.cfg.policy == "jitter" else None
            try:
                if jitter:
                    time.sleep(jitter[0])
                res = fn(*args, **kwargs)
                if jitter:
                    time.sleep(jitter[1])
            except BaseException as e:
                with self.cv:
                    self.running -= 1
                    self.rec["finish"].append(seq)
                fut.set_exception(e)
                continue
            with self.cv:
                self.running -= 1
                self.rec["finish"].append(seq)
            fut.set_result(res)


def install():
    import pygamma_agreement.continuum as pc
    if getattr(pc, "_verif_exec_installed", False):
        return
    pc._verif_real_executor = pc.ThreadPoolExecutor
    pc.ThreadPoolExecutor = ControlledExecutor
    pc._verif_exec_installed = True


def use_real(flag):
    import pygamma_agreement.continuum as pc
    pc.ThreadPoolExecutor = pc._verif_real_executor if flag else ControlledExecutor


def take_records():
    global RECORDS
    r, RECORDS = RECORDS, []
    for x in r:
        x["threads"] = len(x["threads"])
    return r


# =========================================================================== yield injection inside jobs
class YieldInjector:
    """Finer than job granularity: a sys.monitoring LINE callback on the library's own Python code that, in worker
    threads only, gives the GIL away (time.sleep(0)) at seeded random statement boundaries.  This manufactures the
    interleavings in which one job is suspended between two statements that touch state shared with another job
    (the dissimilarity object, the sampler, the input continuum).  Only statement boundaries of Python code can be
    chosen - numba kernels and the MIP solvers run to completion (they do not release the GIL here)."""
    TOOL = 4   # a free sys.monitoring tool id

    def __init__(self, seed=0, probability=0.03):
        import sys
        self.sys = sys
        self.rng = random.Random(seed)
        self.p = probability
        self.main = threading.get_ident()
        self.yields = 0
        self.lines_seen = 0
        self.active = False

    def start(self, package_dir):
        mon = self.sys.monitoring
        self.package_dir = package_dir
        try:
            mon.use_tool_id(self.TOOL, "verif-yield")
        except ValueError:
            mon.free_tool_id(self.TOOL)
            mon.use_tool_id(self.TOOL, "verif-yield")
        mon.register_callback(self.TOOL, mon.events.LINE, self._line)
        mon.set_events(self.TOOL, mon.events.LINE)
        self.active = True

    def _line(self, code, lineno):
        if not code.co_filename.startswith(self.package_dir):
            return self.sys.monitoring.DISABLE      # never look at this location again
        if threading.get_ident() == self.main:
            return None
        self.lines_seen += 1
        if self.rng.random() < self.p:
            self.yields += 1
            time.sleep(0)
        return None

    def stop(self):
        if self.active:
            mon = self.sys.monitoring
            mon.set_events(self.TOOL, 0)
            mon.register_callback(self.TOOL, mon.events.LINE, None)
            mon.free_tool_id(self.TOOL)
            mon.restart_events()
            self.active = False
