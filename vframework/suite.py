"""Runs the repository's own test suite with the passive monitors on (thorough tier): the suite's large inputs
(2x1000, 3x100, 5x14 units, CST corpora) become workload for the monitors."""
import glob
import json
import os
import subprocess
import sys

VERIF = os.path.dirname(os.path.dirname(os.path.abspath(__file__)))


def run_suite_under_monitors(ctx, which, prefix="suite:", workers=8, timeout=2400):
    repo = os.path.realpath(os.environ.get("VERIF_REPO", "/repo"))
    if not os.path.isdir(os.path.join(repo, "tests")):
        ctx.observe("suite_under_monitors", "skipped: no tests directory beside the package")
        return
    out = os.path.join(ctx.outdir, "suite")
    env = dict(os.environ, PYGAMMA_VERIF_MONITORS="1", VERIF_SUITE_OUT=out, VERIF_SUITE_MONITORS=which,
               PYTHONPATH=VERIF + os.pathsep + repo, PYTHONHASHSEED="0")
    env.pop("NUMBA_BOUNDSCHECK", None)
    cmd = [sys.executable, "-m", "pytest", "-q", "-p", "no:cacheprovider", "-p", "vframework.pytest_monitors",
           "--timeout=900", "-n", str(workers), "--deselect", "tests/test_cli.py", "tests"]
    try:
        r = subprocess.run(cmd, cwd=repo, env=env, capture_output=True, text=True, timeout=timeout)
    except subprocess.TimeoutExpired:
        ctx.inconclusive_because("repository suite under monitors: watchdog fired")
        return
    tail = (r.stdout or "")[-400:].replace("\n", " / ")
    ctx.observe("suite_under_monitors", f"pytest exit {r.returncode}")
    ctx.note("suite_tail", tail)
    if r.returncode not in (0, 1):
        ctx.inconclusive_because(f"repository suite under monitors did not run: exit {r.returncode}: {tail}")
    n = 0
    for spath in glob.glob(os.path.join(out, "proc-*", "summary.json")):
        with open(spath) as f:
            s = json.load(f)
        n += 1
        for m, c in s["monitors"].items():
            ctx.count(prefix + m, c)
        for t in s["hashes"]:
            ctx.begin_case({"suite_test": t}, key="suite:" + t)
        for k, v in s.get("observed", {}).items():
            for val, c in v.items():
                ctx.observe(prefix + k, val, c)
    for fpath in glob.glob(os.path.join(out, "proc-*", "fails.jsonl")):
        with open(fpath) as f:
            for line in f:
                line = line.strip()
                if line:
                    rec = json.loads(line)
                    ctx.fail(rec["key"], {"in_suite_test": rec.get("case"), **(rec.get("detail") or {})},
                             case=rec.get("case"), monitor=rec.get("monitor"))
    ctx.observe("suite_processes_reporting", n)
