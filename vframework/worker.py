"""One long-lived worker process per shard.

python -m vframework.worker <prop> <tier> <seed> <shard> <nshards> <outdir> [--replay file]

Imports pygamma_agreement from the repository root given by VERIF_REPO (default /repo) and refuses to run
if the imported package lives anywhere else: every worker start is a rebuild from the current sources
(the numba kernels carry no on-disk cache)."""
import faulthandler
import importlib
import json
import os
import sys
import traceback


def main():
    prop, tier, seed, shard, nshards, outdir = sys.argv[1:7]
    replay = None
    if "--replay" in sys.argv:
        replay = sys.argv[sys.argv.index("--replay") + 1]
    shard, nshards = int(shard), int(nshards)
    os.makedirs(outdir, exist_ok=True)
    flog = open(os.path.join(outdir, "fault.log"), "w")
    faulthandler.enable(file=flog, all_threads=True)

    repo = os.path.realpath(os.environ.get("VERIF_REPO", "/repo"))
    sys.path.insert(0, repo)
    from vframework import boot
    boot.ensure_deps()

    params = json.loads(os.environ.get("VERIF_PARAMS", "{}"))
    from vframework import ctx as ctxmod
    ctx = ctxmod.Ctx(prop, tier, int(seed), shard, nshards, params, outdir, replay=bool(replay))
    ctxmod.CTX = ctx
    # GLPK and the library print to fd 1: keep our own channel clean by sending fd 1 to the log
    logf = open(os.path.join(outdir, "stdout.log"), "w")
    os.dup2(logf.fileno(), 1)
    status = "done"
    try:
        import pygamma_agreement
        where = os.path.realpath(pygamma_agreement.__file__)
        if not where.startswith(repo + os.sep):
            raise RuntimeError(f"pygamma_agreement imported from {where}, expected under {repo}")
        ctx.note("package_file", where)
        ctx.note("boundscheck", os.environ.get("NUMBA_BOUNDSCHECK", "0"))
        mod = importlib.import_module(f"vframework.props.{prop}")
        if replay:
            with open(replay) as f:
                rec = json.load(f)
            case = rec.get("case", rec)
            ctx.begin_case(case)
            mod.check_case(ctx, case)
        else:
            mod.run(ctx)
    except BaseException as e:  # harness error: reported as inconclusive by the orchestrator
        status = "error"
        with open(os.path.join(outdir, "error.txt"), "w") as f:
            f.write("".join(traceback.format_exception(type(e), e, e.__traceback__)))
    finally:
        ctx.finish(status)
    sys.stdout.flush()
    os._exit(0 if status == "done" else 3)


if __name__ == "__main__":
    main()
